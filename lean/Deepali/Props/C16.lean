/-
  Props/C16.lean — property C16: image similarity and overlap losses satisfy their defining axioms.
  Only property theorems and non-vacuity examples live here; helper lemmas are in
  Deepali/Proofs/Losses{Basic,Pointwise,Corr,Overlap,MI,Wrappers}.lean, the model in
  Deepali/Model/Losses.lean (a transcription of losses/functional.py).

  Reading.  Tensors are flat index functions; every statement is for arbitrary sizes (`n`, `N`, `S`,
  `B` bins, arbitrary window families), arbitrary field `K` (ordered where an inequality or
  `abs`/threshold is involved).  ε is explicit: where the code's ε-regularised value differs from the
  ideal one the theorem states the exact value the code produces.

  OBLIGATIONS: C16_reductions C16_reductions_wrappers C16_reductions_finish_mean C16_reductions_pointwise
    C16_masked_pointwise C16_masked_pointwise_wrapper C16_masked_mean C16_windowed_weighted
    C16_norm_scaling C16_norm_scaling_wrapper
    C16_pointwise_identical C16_pointwise_range C16_pointwise_symmetric
    C16_ncc_identical C16_ncc_range C16_ncc_symmetric C16_ncc_affine_invariant C16_ncc_affine_invariant_eps0
    C16_lcc_identical C16_lcc_range C16_lcc_symmetric C16_lcc_affine_invariant C16_lcc_affine_invariant_eps0
    C16_lcc_wrapper C16_lcc_windows_nonempty
    C16_dice_identical C16_dice_identical_eps C16_dice_symmetric C16_dice_range
    C16_tversky_identical C16_tversky_symmetric C16_tversky_range C16_tversky_half_is_dice
    C16_mi_symmetric C16_mi_symmetric_wrapper
    C16_tversky_loss_focal C16_tversky_loss_error_passthrough C16_tversky_loss_identical C16_tversky_loss_range
    C16_tversky_loss_symmetric C16_tversky_loss_reductions C16_tversky_loss_half_is_dice_loss
    C16_tversky_weight_binary_accepted
    C16_tversky_encoding_pred1_target2 C16_tversky_encoding_pred2_target1 C16_tversky_encoding_pred1_labels
    C16_tversky_encoding_pred2_labels C16_tversky_encoding_identical C16_tversky_labels_out_of_range
    C16_ncc_masked_identical C16_ncc_masked_range C16_ncc_masked_symmetric C16_ncc_masked_affine_invariant
    C16_ncc_masked_affine_invariant_eps0 C16_ncc_mask_ignored C16_ncc_mask_ones C16_ncc_mask_accepted
    C16_mi_mask_ignored C16_mi_mask_selected C16_mi_mask_selected_loss
    C16_module_norm_forms C16_module_norm_symmetric C16_module_norm_scale C16_module_norm_positive
-/
import Deepali.Proofs.LossesWrappers
import Deepali.Proofs.LossesOverlap
import Deepali.Proofs.LossesEncoding
import Deepali.Proofs.LossesModules
import Mathlib.Tactic.NormNum

set_option linter.unusedSectionVars false

namespace Deepali
open Deepali.Loss

section Field
variable {K : Type} [Field K]

/-! ## reductions -/

/-- `reduce_loss`: 'sum' is the sum of the 'none' output; 'mean' is that sum divided by the number
    of elements of the 'none' output (no mask) or by `Σ mask` (mask given), for any size and loss. -/
theorem C16_reductions (n : Nat) (f : Nat → K) (m : Option (Nat → K)) :
    reduceLoss .sum n f m = [lsum (reduceLoss .none n f m)] ∧
    reduceLoss .mean n f m = [lsum (reduceLoss .none n f m) /
      (match m with
        | none => (((reduceLoss .none n f m).length : Nat) : K)
        | some w => sumTo n w)] := by
  refine ⟨reduceLoss_sum n f m, ?_⟩
  cases m with
  | none => exact reduceLoss_mean_nomask n f
  | some w => exact reduceLoss_mean_mask n f w

/-- every non-pointwise wrapper ends in the same `reduce_loss`, so its 'sum' output is the sum of
    its 'none' output (errors are propagated unchanged). -/
theorem C16_reductions_wrappers [LT K] [DecidableRel (α := K) (· < ·)] [HasFloor K] (x y : T K)
    (mask sm tm : Option (T K)) (ks : List Nat) (eps alpha beta : K) (b : Bool) :
    nccLoss .sum x y mask eps = (nccLoss .none x y mask eps).map (fun v => [lsum v]) ∧
    lccLoss .sum x y mask ks eps = (lccLoss .none x y mask ks eps).map (fun v => [lsum v]) ∧
    wlccLoss .sum x y mask sm tm ks eps = (wlccLoss .none x y mask sm tm ks eps).map (fun v => [lsum v]) ∧
    diceScore .sum x y mask eps = (diceScore .none x y mask eps).map (fun v => [lsum v]) ∧
    diceLoss .sum x y mask eps = (diceLoss .none x y mask eps).map (fun v => [lsum v]) ∧
    tverskyIndex .sum x y mask alpha beta eps b
      = (tverskyIndex .none x y mask alpha beta eps b).map (fun v => [lsum v]) :=
  ⟨finish_sum _, finish_sum _, finish_sum _, finish_sum _, finish_sum _, finish_sum _⟩

/-- … and its 'mean' output is that sum divided by the number of values (no mask reaches
    `reduce_loss`: ncc/lcc without mask, dice, tversky) or by the sum of the expanded mask
    (lcc/wlcc with mask).  `p` is the wrapper's state before `reduce_loss` (`nccPrep`, `lccPrep`,
    `wlccPrep`, `dicePrep`, `tverskyPrep`; each wrapper is `finish red p` by definition). -/
theorem C16_reductions_finish_mean (p : Prep K) (n : Nat) (l : Nat → K) (m : Option (Nat → K))
    (hp : p = .ok (n, l, m)) :
    finish .mean p = (finish .none p).map (fun v => [lsum v /
      (match m with | none => ((v.length : Nat) : K) | some w => sumTo n w)]) :=
  finish_mean p n l m hp

end Field

section Ordered
variable {K : Type} [Field K] [LinearOrder K] [IsStrictOrderedRing K]

/-- pointwise losses (ssd/mse/l1/mae/huber/smooth-l1), wrapper level incl. shape checks and
    `norm`: 'sum' and 'mean' from 'none'; with a mask the mean is over `Σ mask` (broadcast). -/
theorem C16_reductions_pointwise (kind : Pointwise K) (x y : T K) (mask : Option (T K)) (norm : Option K) :
    pointwiseLoss kind .sum x y mask norm
      = (pointwiseLoss kind .none x y mask norm).map (fun v => [lsum v]) ∧
    pointwiseLoss kind .mean x y mask norm
      = (pointwiseLoss kind .none x y mask norm).map (fun v => [lsum v /
          (match mask with
            | none => ((v.length : Nat) : K)
            | some m => sumTo x.numel (expandAs x.shape m))]) :=
  ⟨pointwiseLoss_sum kind x y mask norm, pointwiseLoss_mean kind x y mask norm⟩

/-! ## masks -/

/-- a pointwise loss ignores samples where the mask is zero entirely: changing source and target
    there changes nothing, for every reduction and any pointwise function `f`. -/
theorem C16_masked_pointwise (f : K → K → K) (red : Reduction) (n : Nat) (x y x' y' w : Nat → K)
    (h : ∀ i, i < n → w i ≠ 0 → x i = x' i ∧ y i = y' i) :
    pointwiseCore f red n x y (some w) = pointwiseCore f red n x' y' (some w) :=
  pointwiseCore_mask_ignored f red n x y x' y' w h

/-- the same through the wrapper: broadcast mask of any accepted shape, shape checks, `norm`. -/
theorem C16_masked_pointwise_wrapper (kind : Pointwise K) (red : Reduction) (x y x' y' m : T K)
    (norm : Option K) (hx : x'.shape = x.shape) (hy : y'.shape = y.shape)
    (h : ∀ i, i < x.numel → expandAs x.shape m i ≠ 0 → x.data i = x'.data i ∧ y.data i = y'.data i) :
    pointwiseLoss kind red x y (some m) norm = pointwiseLoss kind red x' y' (some m) norm :=
  pointwiseLoss_mask_ignored kind red x y x' y' m norm hx hy h

/-- masked mean = average over the masked region: for a 0/1 mask the 'mean' reduction is the sum
    of the loss over the selected samples divided by their number. -/
theorem C16_masked_mean (f : K → K → K) (n : Nat) (x y w : Nat → K) (hw : ∀ i, i < n → w i = 0 ∨ w i = 1) :
    pointwiseCore f .mean n x y (some w)
      = [(((List.range n).filter (fun i => w i = 1)).map (fun i => f (x i) (y i))).sum /
          (((List.range n).filter (fun i => w i = 1)).length : K)] := by
  obtain ⟨h1, h2⟩ := binary_mask_sum n (fun i => f (x i) (y i)) w hw
  simp only [pointwiseCore, reduceLoss, h1, h2]

/-- windowed loss (LCC): with a mask the local scores of the unmasked loss are *weighted* by the
    broadcast mask (`none`: `score·mask`; `sum`: `Σ score·mask`; `mean`: `Σ score·mask / Σ mask`) —
    the images under masked-out samples still enter neighbouring windows. -/
theorem C16_windowed_weighted (red : Reduction) (x y m : T K) (ks : List Nat) (eps : K)
    (h : x.shape = y.shape) (hp : poolCheck x.shape ks = .ok ())
    (hm : maskedLossCheck x.shape m.shape = .ok ()) (hl : m.shape.length = x.shape.length) :
    lccLoss red x y (some m) ks eps
      = .ok (reduceLoss red x.numel
          (fun i => lccAt (tensorWin x.shape ks) x.data y.data eps i * expandAs x.shape m i)
          (some (expandAs x.shape m))) := by
  unfold lccLoss
  rw [lccPrep_mask x y m ks eps h hp hm hl]; rfl

/-! ## normalisation factor -/

/-- `norm`: every output value is divided by `norm` when `norm > 0` and left alone otherwise
    (as coded: `if norm > 0`). -/
theorem C16_norm_scaling (c : K) (v : List K) :
    (0 < c → applyNorm (some c) v = v.map (fun l => l / c)) ∧ (¬ 0 < c → applyNorm (some c) v = v) ∧
    applyNorm none v = v :=
  ⟨fun h => applyNorm_pos h v, fun h => applyNorm_nonpos h v, rfl⟩

theorem C16_norm_scaling_wrapper (kind : Pointwise K) (red : Reduction) (x y : T K) (mask : Option (T K)) (c : K) :
    (0 < c → pointwiseLoss kind red x y mask (some c)
      = (pointwiseLoss kind red x y mask none).map (fun v => v.map (fun l => l / c))) ∧
    (¬ 0 < c → pointwiseLoss kind red x y mask (some c) = pointwiseLoss kind red x y mask none) :=
  ⟨fun h => pointwiseLoss_norm_pos kind red x y mask h, fun h => pointwiseLoss_norm_nonpos kind red x y mask h⟩

/-! ## pointwise losses -/

/-- identical inputs: every output value (any reduction, any mask) is exactly 0. -/
theorem C16_pointwise_identical (kind : Pointwise K) (hk : kind.Valid) (red : Reduction) (n : Nat)
    (x : Nat → K) (m : Option (Nat → K)) : ∀ v ∈ pointwiseCore kind.fn red n x x m, v = 0 :=
  pointwiseCore_identical kind.fn (kind.fn_self hk) red n x m

/-- range: non-negative for non-negative masks. -/
theorem C16_pointwise_range (kind : Pointwise K) (hk : kind.Valid) (red : Reduction) (n : Nat)
    (x y : Nat → K) (m : Option (Nat → K)) (hm : ∀ w, m = some w → ∀ i, i < n → 0 ≤ w i) :
    ∀ v ∈ pointwiseCore kind.fn red n x y m, 0 ≤ v :=
  pointwiseCore_nonneg kind.fn (kind.fn_nonneg hk) red n x y m hm

theorem C16_pointwise_symmetric (kind : Pointwise K) (red : Reduction) (n : Nat) (x y : Nat → K)
    (m : Option (Nat → K)) : pointwiseCore kind.fn red n x y m = pointwiseCore kind.fn red n y x m :=
  pointwiseCore_symm kind.fn kind.fn_symm red n x y m

example : (Pointwise.huber (1 : ℚ)).Valid ∧ (Pointwise.smoothL1 (0 : ℚ)).Valid ∧ (Pointwise.ssd : Pointwise ℚ).Valid := by
  refine ⟨?_, ?_, trivial⟩ <;> simp [Pointwise.Valid]

/-! ## normalised cross correlation (one batch item of `n` flattened samples) -/

/-- identical images: the value is `ε / (b² + ε)` with `b = Σ (s − mean)²`; i.e. exactly the minimum 0
    for `ε = 0` and a non-constant image, and at most `ε / b²` above it otherwise. -/
theorem C16_ncc_identical (n : Nat) (s : Nat → K) (eps : K)
    (h : sumTo n (fun i => (s i - sumTo n s / (n : K)) * (s i - sumTo n s / (n : K)))
          * sumTo n (fun i => (s i - sumTo n s / (n : K)) * (s i - sumTo n s / (n : K))) + eps ≠ 0) :
    nccItem n s s eps
      = eps / (sumTo n (fun i => (s i - sumTo n s / (n : K)) * (s i - sumTo n s / (n : K)))
          * sumTo n (fun i => (s i - sumTo n s / (n : K)) * (s i - sumTo n s / (n : K))) + eps) := by
  rw [nccItem_eq]
  simp only [sumTo_eq_winSum n (fun i => (s i - _) * (s i - _))] at h ⊢
  exact lccScore_self _ _ eps h

theorem C16_ncc_range (n : Nat) (s t : Nat → K) {eps : K} (he : 0 ≤ eps) :
    0 ≤ nccItem n s t eps ∧ nccItem n s t eps ≤ 1 := by
  rw [nccItem_eq]; exact lccScore_range _ _ _ he

theorem C16_ncc_symmetric (n : Nat) (s t : Nat → K) (eps : K) : nccItem n s t eps = nccItem n t s eps := by
  rw [nccItem_eq, nccItem_eq, lccScore_symm]

/-- intensity scale and offset of either image: exactly the same value with `ε` replaced by
    `ε / (a·c)²` — for every `ε`, including constant images. -/
theorem C16_ncc_affine_invariant (n : Nat) (hn : n ≠ 0) (s t : Nat → K) (eps a b c d : K) (ha : a ≠ 0)
    (hc : c ≠ 0) :
    nccItem n (fun i => a * s i + b) (fun i => c * t i + d) eps = nccItem n s t (eps / (a * a) / (c * c)) := by
  simp only [nccItem_eq]
  rw [lccScore_scale_left _ (fun i => s i - sumTo n s / (n : K)) _ _ eps a ha
        (fun j _ => center_affine_global n hn s a b j),
      lccScore_scale_right _ _ (fun i => t i - sumTo n t / (n : K)) _ _ c hc
        (fun j _ => center_affine_global n hn t c d j)]

/-- for `ε = 0`: exact invariance under `a·x + b`, `a ≠ 0`, of either image. -/
theorem C16_ncc_affine_invariant_eps0 (n : Nat) (hn : n ≠ 0) (s t : Nat → K) (a b c d : K) (ha : a ≠ 0)
    (hc : c ≠ 0) : nccItem n (fun i => a * s i + b) (fun i => c * t i + d) 0 = nccItem n s t 0 := by
  rw [C16_ncc_affine_invariant n hn s t 0 a b c d ha hc]; simp

example : nccItem 3 (fun i => [1, 2, 4].getD i (0 : ℚ)) (fun i => [0, 5, 2].getD i 0) 0 = 507 / 532 ∧
    nccItem 3 (fun i => -3 * [1, 2, 4].getD i (0 : ℚ) + 7) (fun i => [0, 5, 2].getD i 0) 0 = 507 / 532 := by
  constructor <;> norm_num [nccItem, sumTo]

/-! ## local normalised cross correlation (one output voxel `i`, arbitrary window family) -/

theorem C16_lcc_identical (win : Nat → List Nat) (s : Nat → K) (eps : K) (i : Nat)
    (h : winSum (win i) (fun j => centered win s j * centered win s j)
          * winSum (win i) (fun j => centered win s j * centered win s j) + eps ≠ 0) :
    lccAt win s s eps i
      = eps / (winSum (win i) (fun j => centered win s j * centered win s j)
          * winSum (win i) (fun j => centered win s j * centered win s j) + eps) :=
  lccScore_self _ _ eps h

theorem C16_lcc_range (win : Nat → List Nat) (s t : Nat → K) {eps : K} (he : 0 ≤ eps) (i : Nat) :
    0 ≤ lccAt win s t eps i ∧ lccAt win s t eps i ≤ 1 :=
  lccScore_range _ _ _ he

theorem C16_lcc_symmetric (win : Nat → List Nat) (s t : Nat → K) (eps : K) (i : Nat) :
    lccAt win s t eps i = lccAt win t s eps i :=
  lccScore_symm _ _ _ eps

/-- intensity scale and offset of either image (all windows met by voxel `i` non-empty, which holds
    for the box windows of the code, `C16_lcc_windows_nonempty`): same value with `ε / (a·c)²`. -/
theorem C16_lcc_affine_invariant (win : Nat → List Nat) (s t : Nat → K) (eps a b c d : K) (i : Nat)
    (ha : a ≠ 0) (hc : c ≠ 0) (hw : ∀ j ∈ win i, win j ≠ []) :
    lccAt win (fun j => a * s j + b) (fun j => c * t j + d) eps i
      = lccAt win s t (eps / (a * a) / (c * c)) i := by
  unfold lccAt
  rw [lccScore_scale_left _ (centered win s) _ _ eps a ha (fun j hj => centered_affine win s a b j (hw j hj)),
      lccScore_scale_right _ _ (centered win t) _ _ c hc (fun j hj => centered_affine win t c d j (hw j hj))]

theorem C16_lcc_affine_invariant_eps0 (win : Nat → List Nat) (s t : Nat → K) (a b c d : K) (i : Nat)
    (ha : a ≠ 0) (hc : c ≠ 0) (hw : ∀ j ∈ win i, win j ≠ []) :
    lccAt win (fun j => a * s j + b) (fun j => c * t j + d) 0 i = lccAt win s t 0 i := by
  rw [C16_lcc_affine_invariant win s t 0 a b c d i ha hc hw]; simp

/-- the wrapper the driver runs (`lcc_loss` incl. shape checks and memoisation) is `lccAt` on the
    box windows of `avg_pool(kernel_size, stride=1, padding=k//2)`. -/
theorem C16_lcc_wrapper (red : Reduction) (x y : T K) (ks : List Nat) (eps : K) (h : x.shape = y.shape)
    (hp : poolCheck x.shape ks = .ok ()) :
    lccLoss red x y none ks eps
      = .ok (reduceLoss red x.numel (lccAt (tensorWin x.shape ks) x.data y.data eps) none) := by
  unfold lccLoss
  rw [lccPrep_nomask x y ks eps h hp]; rfl

/-- box windows are never empty (they contain their centre). -/
theorem C16_lcc_windows_nonempty (shape ks : List Nat) (i : Nat) (hl : ks.length = (shape.drop 2).length)
    (hk : ∀ k ∈ ks, 0 < k) (hS : 0 < prod (shape.drop 2)) : tensorWin shape ks i ≠ [] :=
  tensorWin_nonempty shape ks i hl hk hS

example : tensorWin [1, 1, 3, 3] [3, 3] 0 = [0, 1, 3, 4] ∧ tensorWin [1, 2, 3, 3] [3, 1] 13 = [10, 13, 16] := by
  decide

/-! ## overlap: Dice and Tversky on one `(n, c)` channel of `S` samples -/

/-- identical inputs: Dice is exactly 1 whenever `2·Σ p²w + ε ≠ 0` … -/
theorem C16_dice_identical (S : Nat) (p : Nat → K) (w : Option (Nat → K)) (eps : K) (k : Nat)
    (h : dotCh S p p w k + dotCh S p p w k + eps ≠ 0) : diceAt S p p w eps k = 1 :=
  diceAt_self S p w eps k h

/-- … in particular for every `ε > 0` and non-negative weights, even for an empty segmentation. -/
theorem C16_dice_identical_eps (S : Nat) (p : Nat → K) (w : Option (Nat → K)) {eps : K} (k : Nat)
    (he : 0 < eps) (hw : ∀ s, s < S → 0 ≤ wOf w (k * S + s)) : diceAt S p p w eps k = 1 := by
  apply diceAt_self
  have : 0 ≤ dotCh S p p w k := by
    rw [dotCh_eq]; exact sumTo_nonneg (fun s hs => mul_nonneg (mul_self_nonneg _) (hw s hs))
  linarith

theorem C16_dice_symmetric (S : Nat) (p y : Nat → K) (w : Option (Nat → K)) (eps : K) (k : Nat) :
    diceAt S p y w eps k = diceAt S y p w eps k :=
  diceAt_symm S p y w eps k

theorem C16_dice_range (S : Nat) (p y : Nat → K) (w : Option (Nat → K)) {eps : K} (k : Nat)
    (hp : ∀ s, s < S → 0 ≤ p (k * S + s)) (hy : ∀ s, s < S → 0 ≤ y (k * S + s))
    (hw : ∀ s, s < S → 0 ≤ wOf w (k * S + s)) (he : 0 ≤ eps) :
    0 ≤ diceAt S p y w eps k ∧ diceAt S p y w eps k ≤ 1 :=
  ⟨diceAt_nonneg S p y w k hp hy hw he, diceAt_le_one S p y w k hw he⟩

/-- identical *binary* segmentations: Tversky index exactly 1 (any `alpha`, `beta`). -/
theorem C16_tversky_identical (S : Nat) (p : Nat → K) (w : Option (Nat → K)) (alpha beta eps : K) (k : Nat)
    (hp : ∀ s, s < S → p (k * S + s) * p (k * S + s) = p (k * S + s))
    (h : dotCh S p p w k + eps ≠ 0) : tverskyAt S p p w alpha beta eps k = 1 :=
  tverskyAt_self_binary S p w alpha beta eps k hp h

/-- exchanging prediction and target exchanges `alpha` and `beta`; symmetric for `alpha = beta`. -/
theorem C16_tversky_symmetric (S : Nat) (p y : Nat → K) (w : Option (Nat → K)) (alpha beta eps : K) (k : Nat) :
    tverskyAt S p y w alpha beta eps k = tverskyAt S y p w beta alpha eps k :=
  tverskyAt_swap S p y w alpha beta eps k

theorem C16_tversky_range (S : Nat) (p y : Nat → K) (w : Option (Nat → K)) {alpha beta eps : K} (k : Nat)
    (hp : ∀ s, s < S → 0 ≤ p (k * S + s) ∧ p (k * S + s) ≤ 1)
    (hy : ∀ s, s < S → 0 ≤ y (k * S + s) ∧ y (k * S + s) ≤ 1)
    (hw : ∀ s, s < S → 0 ≤ wOf w (k * S + s)) (ha : 0 ≤ alpha) (hb : 0 ≤ beta) (he : 0 ≤ eps) :
    0 ≤ tverskyAt S p y w alpha beta eps k ∧ tverskyAt S p y w alpha beta eps k ≤ 1 :=
  tverskyAt_range S p y w k hp hy hw ha hb he

/-- on binary inputs the Tversky index with `alpha = beta = ½` and smoothing `ε` *is* the Dice
    score with smoothing `2ε` (hence equal to Dice exactly for `ε = 0`). -/
theorem C16_tversky_half_is_dice (S : Nat) (p y : Nat → K) (w : Option (Nat → K)) (eps : K) (k : Nat)
    (hp : ∀ s, s < S → p (k * S + s) * p (k * S + s) = p (k * S + s))
    (hy : ∀ s, s < S → y (k * S + s) * y (k * S + s) = y (k * S + s)) :
    tverskyAt S p y w (1 / 2) (1 / 2) eps k = diceAt S p y w (2 * eps) k :=
  tverskyAt_half_eq_dice S p y w eps k hp hy

example : diceAt 4 (fun i => [1, 0, 1, 1].getD i (0 : ℚ)) (fun i => [1, 1, 0, 1].getD i 0) none 0 0 = 2 / 3 ∧
    tverskyAt 4 (fun i => [1, 0, 1, 1].getD i (0 : ℚ)) (fun i => [1, 1, 0, 1].getD i 0) none (1 / 2) (1 / 2) 0 0 = 2 / 3 := by
  constructor <;> norm_num [diceAt, tverskyAt, dotCh, sumTo]

end Ordered

section Field
variable {K : Type} [Field K]

/-! ## mutual information -/

/-- MI / NMI (Parzen estimate as coded, with or without a mask weighting the joint histogram) is
    symmetric in the two images for an arbitrary window response `win`, an arbitrary function `lg` in
    place of `log`, any bins, batch and sample count. -/
theorem C16_mi_symmetric (win : K → K → K) (lg : K → K) (tiny : K) (normalized : Bool) (N B S : Nat)
    (cen x y : Nat → K) (m : Option (Nat → K)) :
    miLossCore win lg tiny normalized N B S cen x y m = miLossCore win lg tiny normalized N B S cen y x m :=
  miLossCore_symm win lg tiny normalized N B S cen x y m

/-- … also through the wrapper (shape checks, flattening, mask broadcasting). -/
theorem C16_mi_symmetric_wrapper (win : K → K → K) (lg : K → K) (tiny : K) (nz : Bool) (x y : T K)
    (mask : Option (T K)) (B : Nat) (cen : Nat → K) (h : x.shape = y.shape) :
    miLoss win lg tiny nz x y mask B cen = miLoss win lg tiny nz y x mask B cen :=
  miLoss_symm win lg tiny nz x y mask B cen h

/-- masked MI (repair d5da1fc / 4a8506f): samples where the mask is 0 do not influence the value —
    changing both images there changes nothing (any `win`, `lg`, bins, batch). -/
theorem C16_mi_mask_ignored (win : K → K → K) (lg : K → K) (tiny : K) (normalized : Bool) (N B S : Nat)
    (cen x y x' y' m : Nat → K) (h : ∀ i, i < N * S → m i ≠ 0 → x i = x' i ∧ y i = y' i) :
    miLossCore win lg tiny normalized N B S cen x y (some m)
      = miLossCore win lg tiny normalized N B S cen x' y' (some m) := by
  have he : ∀ n, n < N →
      miEntropies win lg tiny B S cen (fun s => x (n * S + s)) (fun s => y (n * S + s)) (some fun s => m (n * S + s))
        = miEntropies win lg tiny B S cen (fun s => x' (n * S + s)) (fun s => y' (n * S + s))
            (some fun s => m (n * S + s)) := by
    intro n hn
    unfold miEntropies
    rw [miProbs_mask_ignored win tiny B S cen _ _ (fun s => x' (n * S + s)) (fun s => y' (n * S + s)) _
      (fun s hs hm => h _ (idx_lt n N S s hn hs) hm)]
  unfold miLossCore
  simp only [Option.map]
  cases normalized
  · simp only [Bool.false_eq_true, if_false]
    rw [sumTo_congr (fun n hn => by rw [he n hn])]
  · simp only [if_true]
    rw [sumTo_congr (fun n hn => by rw [he n hn])]

end Field

section MaskedOrdered
variable {K : Type} [Field K] [LinearOrder K] [IsStrictOrderedRing K]

/-- masked MI with a 0/1 mask averages over the masked region only: joint/marginal distributions
    and hence the three entropies of one image pair are exactly those of the kept samples alone
    (`kept S m` = the indices with `m = 1`, in order) — for any `win`, `lg`, bins. -/
theorem C16_mi_mask_selected (win : K → K → K) (lg : K → K) (tiny : K) (B S : Nat) (cen x y m : Nat → K)
    (hm : ∀ s, s < S → m s = 0 ∨ m s = 1) :
    miEntropies win lg tiny B S cen x y (some m)
      = miEntropies win lg tiny B (kept S m).length cen (fun j => x ((kept S m).getD j 0))
          (fun j => y ((kept S m).getD j 0)) none := by
  unfold miEntropies
  rw [miProbs_mask_selected win tiny B S cen x y m hm]

/-- … so the loss of one image pair with a 0/1 mask is the loss of its kept samples. -/
theorem C16_mi_mask_selected_loss (win : K → K → K) (lg : K → K) (tiny : K) (normalized : Bool) (B S : Nat)
    (cen x y m : Nat → K) (hm : ∀ s, s < S → m s = 0 ∨ m s = 1) :
    miLossCore win lg tiny normalized 1 B S cen x y (some m)
      = miLossCore win lg tiny normalized 1 B (kept S m).length cen (fun j => x ((kept S m).getD j 0))
          (fun j => y ((kept S m).getD j 0)) none := by
  have h0 := C16_mi_mask_selected win lg tiny B S cen x y m hm
  unfold miLossCore
  simp only [Option.map, sumTo, Nat.zero_mul, Nat.zero_add, h0]

/-! ## NCC with a mask (repair d5da1fc / 4a8506f): weighted means, centred images times mask -/

/-- identical images: `ε / (b² + ε)` with `b = Σ ((s − mean_m s)·m)²`, i.e. exactly 0 for `ε = 0`. -/
theorem C16_ncc_masked_identical (n : Nat) (s m : Nat → K) (eps : K)
    (h : winSum (List.range n) (fun j => centerM n s m j * centerM n s m j)
          * winSum (List.range n) (fun j => centerM n s m j * centerM n s m j) + eps ≠ 0) :
    nccItemM n s s m eps
      = eps / (winSum (List.range n) (fun j => centerM n s m j * centerM n s m j)
          * winSum (List.range n) (fun j => centerM n s m j * centerM n s m j) + eps) := by
  rw [nccItemM_eq]; exact lccScore_self _ _ eps h

theorem C16_ncc_masked_range (n : Nat) (s t m : Nat → K) {eps : K} (he : 0 ≤ eps) :
    0 ≤ nccItemM n s t m eps ∧ nccItemM n s t m eps ≤ 1 := by
  rw [nccItemM_eq]; exact lccScore_range _ _ _ he

theorem C16_ncc_masked_symmetric (n : Nat) (s t m : Nat → K) (eps : K) :
    nccItemM n s t m eps = nccItemM n t s m eps := by
  rw [nccItemM_eq, nccItemM_eq, lccScore_symm]

/-- intensity scale and offset of either image (mask with `Σ m ≠ 0`): same value with `ε / (a·c)²`. -/
theorem C16_ncc_masked_affine_invariant (n : Nat) (s t m : Nat → K) (eps a b c d : K) (ha : a ≠ 0) (hc : c ≠ 0)
    (hm : sumTo n m ≠ 0) :
    nccItemM n (fun i => a * s i + b) (fun i => c * t i + d) m eps = nccItemM n s t m (eps / (a * a) / (c * c)) := by
  simp only [nccItemM_eq]
  rw [lccScore_scale_left _ (centerM n s m) _ _ eps a ha (fun j _ => centerM_affine n s m a b hm j),
      lccScore_scale_right _ _ (centerM n t m) _ _ c hc (fun j _ => centerM_affine n t m c d hm j)]

theorem C16_ncc_masked_affine_invariant_eps0 (n : Nat) (s t m : Nat → K) (a b c d : K) (ha : a ≠ 0) (hc : c ≠ 0)
    (hm : sumTo n m ≠ 0) :
    nccItemM n (fun i => a * s i + b) (fun i => c * t i + d) m 0 = nccItemM n s t m 0 := by
  rw [C16_ncc_masked_affine_invariant n s t m 0 a b c d ha hc hm]; simp

/-- samples where the mask is 0 do not influence the result: changing both images there changes nothing. -/
theorem C16_ncc_mask_ignored (n : Nat) (s t s' t' m : Nat → K) (eps : K)
    (h : ∀ i, i < n → m i ≠ 0 → s i = s' i ∧ t i = t' i) :
    nccItemM n s t m eps = nccItemM n s' t' m eps := by
  rw [nccItemM_eq, nccItemM_eq]
  exact lccScore_congr _ _ _ _ _ eps
    (fun j hj => centerM_congr n s s' m (fun i hi hm => (h i hi hm).1) j (List.mem_range.mp hj))
    (fun j hj => centerM_congr n t t' m (fun i hi hm => (h i hi hm).2) j (List.mem_range.mp hj))

/-- an all-ones mask gives the unmasked loss. -/
theorem C16_ncc_mask_ones (n : Nat) (s t m : Nat → K) (eps : K) (h : ∀ i, i < n → m i = 1) :
    nccItemM n s t m eps = nccItem n s t eps := by
  rw [nccItemM_eq, nccItem_eq]
  exact lccScore_congr _ _ _ _ _ eps
    (fun j hj => centerM_ones n s m h j (List.mem_range.mp hj))
    (fun j hj => centerM_ones n t m h j (List.mem_range.mp hj))

/-- every documented mask shape is accepted: for images `(N, C, …X)` and a mask `(1|N, 1|C, …X)`
    `ncc_loss` returns the weighted item scores on the broadcast mask (any reduction). -/
theorem C16_ncc_mask_accepted (red : Reduction) (N C : Nat) (sp : List Nat) (n0 c0 : Nat) (x y m : T K) (eps : K)
    (hx : x.shape = N :: C :: sp) (hy : y.shape = N :: C :: sp) (hms : m.shape = n0 :: c0 :: sp)
    (hn : n0 = 1 ∨ n0 = N) (hc : c0 = 1 ∨ c0 = C) :
    nccLoss red x y (some m) eps
      = .ok (reduceLoss red N (nccNoneM (C * prod sp) x.data y.data (expandAs x.shape m) eps) none) := by
  unfold nccLoss
  rw [nccPrep_mask x y m eps (by rw [hx, hy]) (by rw [hx, hms]; exact maskedLossCheck_documented N C sp n0 c0 hn hc)
    (by rw [hx, hms]; simp)]
  simp only [hx, one_mul, finish, Except.map, List.headD_cons, List.drop_succ_cons, List.drop_zero, prod]

end MaskedOrdered

section Floor
variable {K : Type} [Field K] [LinearOrder K] [IsStrictOrderedRing K] [FloorRing K]

/-! ## Tversky loss (`tversky_loss`, repaired by commit 830fa90) and weighted binary Tversky (b020f45) -/

/-- `tversky_loss = (1 − TI)^gamma`: once `tversky_index` has a value `ti`, the loss before
    `reduce_loss` is `1 − ti` for `gamma` None / 0 / 1, `pw (1 − ti)` for `gamma > 1` (`pw` = the power
    `t ↦ t^gamma`, e.g. `npow n`), and a `ValueError` for the remaining `gamma < 1`. -/
theorem C16_tversky_loss_focal (pw : K → K) (x y : T K) (w : Option (T K)) (alpha beta eps : K) (b : Bool)
    (n : Nat) (ti : Nat → K) (m : Option (Nat → K))
    (h : tverskyPrep x y w alpha beta eps b = .ok (n, ti, m)) :
    tverskyLossPrep pw x y w alpha beta eps b none = .ok (n, fun k => 1 - ti k, none) ∧
    (∀ g : K, 1 < g → tverskyLossPrep pw x y w alpha beta eps b (some g) = .ok (n, fun k => pw (1 - ti k), none)) ∧
    (∀ g : K, g = 0 ∨ g = 1 → tverskyLossPrep pw x y w alpha beta eps b (some g) = .ok (n, fun k => 1 - ti k, none)) ∧
    (∀ g : K, g < 1 → g ≠ 0 → tverskyLossPrep pw x y w alpha beta eps b (some g) = .error "err:value:gamma") :=
  tverskyLossPrep_of_ok pw x y w alpha beta eps b n ti m h

/-- … and whenever `tversky_index` rejects its arguments, `tversky_loss` reports the same error. -/
theorem C16_tversky_loss_error_passthrough (pw : K → K) (red : Reduction) (x y : T K) (w : Option (T K))
    (alpha beta eps : K) (b : Bool) (gamma : Option K) (e : String)
    (h : tverskyIndex .none x y w alpha beta eps b = .error e) :
    tverskyLoss pw red x y w alpha beta eps b gamma = .error e := by
  unfold tverskyIndex finish at h
  unfold tverskyLoss
  cases hp : tverskyPrep x y w alpha beta eps b with
  | error e' =>
    rw [hp] at h
    simp only [Except.map, Except.error.injEq] at h
    rw [tverskyLossPrep_of_error pw x y w alpha beta eps b gamma e' hp, h]; rfl
  | ok r => rw [hp] at h; simp [Except.map] at h

/-- 'sum' / 'mean' of `tversky_loss` are the sum / mean of its 'none' output. -/
theorem C16_tversky_loss_reductions (pw : K → K) (x y : T K) (w : Option (T K)) (alpha beta eps : K) (b : Bool)
    (gamma : Option K) :
    tverskyLoss pw .sum x y w alpha beta eps b gamma
      = (tverskyLoss pw .none x y w alpha beta eps b gamma).map (fun v => [lsum v]) ∧
    (∀ n l, tverskyLossPrep pw x y w alpha beta eps b gamma = .ok (n, l, none) →
      tverskyLoss pw .mean x y w alpha beta eps b gamma
        = (tverskyLoss pw .none x y w alpha beta eps b gamma).map (fun v => [lsum v / ((v.length : Nat) : K)])) :=
  ⟨finish_sum _, fun n l h => finish_mean _ n l none h⟩

/-- a binary prediction `(N, 1, …X)` with either documented weight shape is accepted and the
    weight is applied sample by sample (all `N`, all spatial shapes, every reduction). -/
theorem C16_tversky_weight_binary_accepted (red : Reduction) (N : Nat) (sp : List Nat)
    (hsp : 2 ≤ sp.length) (x y w : T K) (hx : x.shape = N :: 1 :: sp) (hy : y.shape = N :: 1 :: sp)
    (hw : w.shape = N :: 1 :: sp ∨ w.shape = N :: sp) (alpha beta eps : K) :
    tverskyIndex red x y (some w) alpha beta eps false
      = .ok (reduceLoss red (N * 1) (tverskyAt (prod sp) x.data y.data (some w.data) alpha beta eps) none) := by
  unfold tverskyIndex
  rw [tverskyPrep_weight_binary_ok N sp hsp x y w hx hy hw]; rfl

end Floor

section Ordered2
variable {K : Type} [Field K] [LinearOrder K] [IsStrictOrderedRing K]

/-- identical binary segmentations: the Tversky loss is exactly 0, also with a focal exponent `n ≥ 1`. -/
theorem C16_tversky_loss_identical (S : Nat) (p : Nat → K) (w : Option (Nat → K)) (alpha beta eps : K) (k n : Nat)
    (hp : ∀ s, s < S → p (k * S + s) * p (k * S + s) = p (k * S + s))
    (h : dotCh S p p w k + eps ≠ 0) (hn : 1 ≤ n) :
    1 - tverskyAt S p p w alpha beta eps k = 0 ∧ npow n (1 - tverskyAt S p p w alpha beta eps k) = 0 := by
  rw [tverskyAt_self_binary S p w alpha beta eps k hp h, npow_eq]
  exact ⟨sub_self 1, by rw [sub_self]; exact zero_pow (by omega)⟩

/-- range `[0, 1]`, also with a focal exponent. -/
theorem C16_tversky_loss_range (S : Nat) (p y : Nat → K) (w : Option (Nat → K)) {alpha beta eps : K} (k n : Nat)
    (hp : ∀ s, s < S → 0 ≤ p (k * S + s) ∧ p (k * S + s) ≤ 1)
    (hy : ∀ s, s < S → 0 ≤ y (k * S + s) ∧ y (k * S + s) ≤ 1)
    (hw : ∀ s, s < S → 0 ≤ wOf w (k * S + s)) (ha : 0 ≤ alpha) (hb : 0 ≤ beta) (he : 0 ≤ eps) :
    (0 ≤ 1 - tverskyAt S p y w alpha beta eps k ∧ 1 - tverskyAt S p y w alpha beta eps k ≤ 1) ∧
    (0 ≤ npow n (1 - tverskyAt S p y w alpha beta eps k) ∧ npow n (1 - tverskyAt S p y w alpha beta eps k) ≤ 1) := by
  obtain ⟨h0, h1⟩ := tverskyAt_range S p y w k hp hy hw ha hb he
  have a0 : 0 ≤ 1 - tverskyAt S p y w alpha beta eps k := by linarith
  have a1 : 1 - tverskyAt S p y w alpha beta eps k ≤ 1 := by linarith
  rw [npow_eq]
  exact ⟨⟨a0, a1⟩, pow_nonneg a0 n, pow_le_one₀ a0 a1⟩

/-- exchanging prediction and target exchanges `alpha` and `beta`; symmetric for `alpha = beta`
    (with or without the focal power). -/
theorem C16_tversky_loss_symmetric (pw : K → K) (S : Nat) (p y : Nat → K) (w : Option (Nat → K))
    (alpha beta eps : K) (k : Nat) :
    pw (1 - tverskyAt S p y w alpha beta eps k) = pw (1 - tverskyAt S y p w beta alpha eps k) := by
  rw [tverskyAt_swap]

/-- on binary inputs the Tversky loss with `alpha = beta = ½` and smoothing `ε` is the Dice loss
    with smoothing `2ε` (equal for `ε = 0`). -/
theorem C16_tversky_loss_half_is_dice_loss (S : Nat) (p y : Nat → K) (w : Option (Nat → K)) (eps : K) (k : Nat)
    (hp : ∀ s, s < S → p (k * S + s) * p (k * S + s) = p (k * S + s))
    (hy : ∀ s, s < S → y (k * S + s) * y (k * S + s) = y (k * S + s)) :
    1 - tverskyAt S p y w (1 / 2) (1 / 2) eps k = 1 - diceAt S p y w (2 * eps) k := by
  rw [tverskyAt_half_eq_dice S p y w eps k hp hy]

end Ordered2

/-- concrete instances: masked NCC through the wrapper (mask `(1, 1, 2, 2)` broadcast over two
    channels; the masked-out sample differs between the two calls), and masked MI with a histogram
    window equal to MI of the kept sample. -/
example :
    nccLoss .none ⟨[1, 2, 2, 2], fun i => [1, 2, 4, 9, 0, 5, 2, 7].getD i (0 : ℚ)⟩
        ⟨[1, 2, 2, 2], fun i => [0, 5, 2, 3, 1, 1, 4, 8].getD i 0⟩
        (some ⟨[1, 1, 2, 2], fun i => [1, 1, 1, 0].getD i 0⟩) 0
      = nccLoss .none ⟨[1, 2, 2, 2], fun i => [1, 2, 4, -3, 0, 5, 2, 11].getD i (0 : ℚ)⟩
        ⟨[1, 2, 2, 2], fun i => [0, 5, 2, 6, 1, 1, 4, -2].getD i 0⟩
        (some ⟨[1, 1, 2, 2], fun i => [1, 1, 1, 0].getD i 0⟩) 0 ∧
    nccLoss .none ⟨[1, 2, 2, 2], fun i => [1, 2, 4, 9, 0, 5, 2, 7].getD i (0 : ℚ)⟩
        ⟨[1, 2, 2, 2], fun i => [0, 5, 2, 3, 1, 1, 4, 8].getD i 0⟩
        (some ⟨[1, 1, 2, 2], fun i => [1, 1, 1, 0].getD i 0⟩) 0 = .ok [1467 / 1469] := by
  constructor <;> decide +kernel

example :
    miLoss (fun x c => if x = c then 1 else 0) id 0 false ⟨[1, 1, 2], fun i => [1, 1].getD i (0 : ℚ)⟩
        ⟨[1, 1, 2], fun i => [1, 1].getD i 0⟩ (some ⟨[1, 1, 2], fun i => [1, 0].getD i 0⟩) 2 (fun b => (b : ℚ))
      = miLoss (fun x c => if x = c then 1 else 0) id 0 false ⟨[1, 1, 1], fun _ => (1 : ℚ)⟩ ⟨[1, 1, 1], fun _ => 1⟩
        none 2 (fun b => (b : ℚ)) := by
  decide +kernel

/-- concrete instances: focal Tversky loss with `gamma = 2` through the wrapper, and a weighted
    binary prediction (both documented weight shapes). -/
example : tverskyLoss (npow 2) .none ⟨[1, 1, 2, 2], fun i => [1, 0, 1, 1].getD i (0 : ℚ)⟩
      ⟨[1, 1, 2, 2], fun i => [1, 1, 0, 1].getD i 0⟩ none (1 / 2) (1 / 2) 0 false (some 2) = .ok [1 / 9] ∧
    tverskyIndex .none ⟨[1, 1, 2, 2], fun i => [1, 0, 1, 1].getD i (0 : ℚ)⟩
      ⟨[1, 1, 2, 2], fun i => [1, 1, 0, 1].getD i 0⟩ (some ⟨[1, 2, 2], fun i => [1, 1, 0, 0].getD i 0⟩)
      (1 / 2) (1 / 2) 0 false = .ok [2 / 3] := by
  decide +kernel

section Encodings
variable {K : Type} [Field K] [LinearOrder K] [IsStrictOrderedRing K] [FloorRing K]

/-! ## the documented encodings of a binary segmentation (after fix 03f6276)

`p`, `t : Nat → K` are binary segmentations of `N` images with `S = prod sp` samples each
(`IsBinary · (N * S)`).  Encodings: foreground channel = tensor `(N, 1, …X)` with data `p`; one-hot =
tensor `(N, 2, …X)` with data `oneHot 2 S p` (channel 0 background, channel 1 foreground); label map =
tensor `(N, …X)` with data `p`.  In every mixed encoding `tversky_index` evaluates the foreground/foreground
index `tverskyAt S p t` — the index does not depend on the encoding. -/

/-- prediction foreground channel, target one-hot. -/
theorem C16_tversky_encoding_pred1_target2 (red : Reduction) (N : Nat) (sp : List Nat) (hsp : 2 ≤ sp.length)
    (x y : T K) (t : Nat → K) (hx : x.shape = N :: 1 :: sp) (hy : y.shape = N :: 2 :: sp)
    (hyd : y.data = oneHot 2 (prod sp) t) (ht : IsBinary t (N * prod sp)) (alpha beta eps : K) :
    tverskyIndex red x y none alpha beta eps false
      = .ok (reduceLoss red (N * 1) (tverskyAt (prod sp) x.data t none alpha beta eps) none) := by
  unfold tverskyIndex
  rw [tverskyPrep_pred1_target2 N sp hsp x y hx hy]
  simp only [finish, Except.map]
  congr 1
  apply reduceLoss_congr
  intro k hk
  apply tverskyAt_congr' _ _ _ _ _ _ _ _ k k (fun s _ => rfl)
  intro s hs
  rw [hyd]
  exact narrow1_oneHot2 _ t k s hs (ht _ (idx_lt k N _ s (by omega) hs))

/-- prediction one-hot, target foreground channel. -/
theorem C16_tversky_encoding_pred2_target1 (red : Reduction) (N : Nat) (sp : List Nat) (hsp : 2 ≤ sp.length)
    (x y : T K) (p : Nat → K) (hx : x.shape = N :: 2 :: sp) (hy : y.shape = N :: 1 :: sp)
    (hxd : x.data = oneHot 2 (prod sp) p) (hp : IsBinary p (N * prod sp)) (alpha beta eps : K) :
    tverskyIndex red x y none alpha beta eps false
      = .ok (reduceLoss red (N * 1) (tverskyAt (prod sp) p y.data none alpha beta eps) none) := by
  unfold tverskyIndex
  rw [tverskyPrep_pred2_target1 N sp hsp x y hx hy]
  simp only [finish, Except.map]
  congr 1
  apply reduceLoss_congr
  intro k hk
  refine tverskyAt_congr' _ _ _ _ _ _ _ _ k k ?_ (fun s _ => rfl)
  intro s hs
  rw [hxd]
  exact narrow1_oneHot2 _ p k s hs (hp _ (idx_lt k N _ s (by omega) hs))

/-- prediction foreground channel, target label map. -/
theorem C16_tversky_encoding_pred1_labels (red : Reduction) (N : Nat) (sp : List Nat) (hsp : 2 ≤ sp.length)
    (hpos : 0 < prod sp) (x y : T K) (hx : x.shape = N :: 1 :: sp) (hy : y.shape = N :: sp)
    (ht : IsBinary y.data (N * prod sp)) (alpha beta eps : K) :
    tverskyIndex red x y none alpha beta eps false
      = .ok (reduceLoss red (N * 1) (tverskyAt (prod sp) x.data y.data none alpha beta eps) none) := by
  unfold tverskyIndex
  rw [tverskyPrep_pred1_labels N sp hsp hpos x y hx hy]
  simp only [finish, Except.map]
  congr 1
  apply reduceLoss_congr
  intro k hk
  apply tverskyAt_congr' _ _ _ _ _ _ _ _ k k (fun s _ => rfl)
  intro s hs
  exact ge_half_binary y.data _ (ht _ (idx_lt k N _ s (by omega) hs))

/-- prediction one-hot, target label map (the case repaired by 03f6276): two values per image;
    the foreground one (flat index `2n + 1`) is the foreground/foreground index. -/
theorem C16_tversky_encoding_pred2_labels (red : Reduction) (N : Nat) (sp : List Nat) (hsp : 2 ≤ sp.length)
    (hpos : 0 < prod sp) (x y : T K) (p : Nat → K) (hx : x.shape = N :: 2 :: sp) (hy : y.shape = N :: sp)
    (hxd : x.data = oneHot 2 (prod sp) p) (hp : IsBinary p (N * prod sp)) (ht : IsBinary y.data (N * prod sp))
    (alpha beta eps : K) :
    tverskyIndex red x y none alpha beta eps false
      = .ok (reduceLoss red (N * 2)
          (tverskyAt (prod sp) (oneHot 2 (prod sp) p) (oneHot 2 (prod sp) y.data) none alpha beta eps) none) ∧
    ∀ n, n < N →
      tverskyAt (prod sp) (oneHot 2 (prod sp) p) (oneHot 2 (prod sp) y.data) none alpha beta eps (2 * n + 1)
        = tverskyAt (prod sp) p y.data none alpha beta eps n := by
  constructor
  · unfold tverskyIndex
    rw [tverskyPrep_pred2_labels N sp hsp hpos x y hx hy alpha beta eps
      (fun i hi => by rcases ht i hi with h | h <;> rw [h] <;> norm_num), hxd]
    rfl
  · intro n hn
    exact tverskyAt_congr' _ _ _ _ _ _ _ _ (2 * n + 1) n
      (fun s hs => oneHot2_fg _ p n s hs (hp _ (idx_lt n N _ s hn hs)))
      (fun s hs => oneHot2_fg _ y.data n s hs (ht _ (idx_lt n N _ s hn hs)))

/-- a binary segmentation compared with itself gives index 1 in every mixed encoding (any
    `alpha`, `beta`; non-empty foreground or `ε ≠ 0`): all values for the three encodings that
    return one value per image, the foreground values for one-hot prediction / label map. -/
theorem C16_tversky_encoding_identical (red : Reduction) (N : Nat) (sp : List Nat) (hsp : 2 ≤ sp.length)
    (hpos : 0 < prod sp) (p : Nat → K) (hp : IsBinary p (N * prod sp)) (alpha beta eps : K)
    (hne : ∀ n, n < N → dotCh (prod sp) p p none n + eps ≠ 0)
    (f1 f2 l : T K) (h1 : f1.shape = N :: 1 :: sp) (h1d : f1.data = p)
    (h2 : f2.shape = N :: 2 :: sp) (h2d : f2.data = oneHot 2 (prod sp) p)
    (hl : l.shape = N :: sp) (hld : l.data = p) :
    tverskyIndex red f1 f2 none alpha beta eps false = .ok (reduceLoss red (N * 1) (fun _ => 1) none) ∧
    tverskyIndex red f2 f1 none alpha beta eps false = .ok (reduceLoss red (N * 1) (fun _ => 1) none) ∧
    tverskyIndex red f1 l none alpha beta eps false = .ok (reduceLoss red (N * 1) (fun _ => 1) none) ∧
    ∃ F : Nat → K, tverskyIndex red f2 l none alpha beta eps false = .ok (reduceLoss red (N * 2) F none) ∧
      ∀ n, n < N → F (2 * n + 1) = 1 := by
  have hself : ∀ k, k < N * 1 → tverskyAt (prod sp) p p none alpha beta eps k = 1 := fun k hk =>
    tverskyAt_self_binary _ p none alpha beta eps k
      (fun s hs => hp.sq _ (idx_lt k N _ s (by omega) hs)) (hne k (by omega))
  refine ⟨?_, ?_, ?_, ?_⟩
  · rw [C16_tversky_encoding_pred1_target2 red N sp hsp f1 f2 p h1 h2 h2d hp, h1d]
    congr 1; exact reduceLoss_congr hself
  · rw [C16_tversky_encoding_pred2_target1 red N sp hsp f2 f1 p h2 h1 h2d hp, h1d]
    congr 1; exact reduceLoss_congr hself
  · rw [C16_tversky_encoding_pred1_labels red N sp hsp hpos f1 l h1 hl (hld ▸ hp), h1d, hld]
    congr 1; exact reduceLoss_congr hself
  · obtain ⟨e1, e2⟩ := C16_tversky_encoding_pred2_labels red N sp hsp hpos f2 l p h2 hl h2d hp (hld ▸ hp) alpha beta eps
    refine ⟨_, e1, fun n hn => ?_⟩
    rw [e2 n hn, hld]; exact hself n (by omega)

/-- a label outside `[0, C)` in the label map of a two-class prediction is rejected. -/
theorem C16_tversky_labels_out_of_range (red : Reduction) (N : Nat) (sp : List Nat) (hsp : 2 ≤ sp.length)
    (hpos : 0 < prod sp) (x y : T K) (hx : x.shape = N :: 2 :: sp) (hy : y.shape = N :: sp) (alpha beta eps : K)
    (i : Nat) (hi : i < N * prod sp) (hb : y.data i < 0 ∨ 2 ≤ y.data i) :
    tverskyIndex red x y none alpha beta eps false = .error "err:runtime:scatter-index" := by
  unfold tverskyIndex
  rw [tverskyPrep_pred2_labels_bad N sp hsp hpos x y hx hy alpha beta eps i hi hb]; rfl

end Encodings

/-- concrete instance: the segmentation `[1, 0, 1, 1]` (2×2) in the four mixed encodings, compared with
    itself (`alpha = 3/10`, `beta = 7/10`, `ε = 0`); one-hot data is `[0, 1, 0, 0, 1, 0, 1, 1]`. -/
example :
    let fg : T ℚ := ⟨[1, 1, 2, 2], fun i => [1, 0, 1, 1].getD i 0⟩
    let oh : T ℚ := ⟨[1, 2, 2, 2], fun i => [0, 1, 0, 0, 1, 0, 1, 1].getD i 0⟩
    let lab : T ℚ := ⟨[1, 2, 2], fun i => [1, 0, 1, 1].getD i 0⟩
    tverskyIndex .none fg oh none (3 / 10) (7 / 10) 0 false = .ok [1] ∧
    tverskyIndex .none oh fg none (3 / 10) (7 / 10) 0 false = .ok [1] ∧
    tverskyIndex .none fg lab none (3 / 10) (7 / 10) 0 false = .ok [1] ∧
    tverskyIndex .none oh lab none (3 / 10) (7 / 10) 0 false = .ok [1, 1] ∧
    (List.range 8).map (oneHot 2 4 lab.data) = [0, 1, 0, 0, 1, 0, 1, 1] := by
  decide +kernel

/-! ## normalisation factor of the module classes (SSD, L2ImageLoss/MSE, L1ImageLoss/MAE, HuberImageLoss,
    SmoothL1ImageLoss): `NormalizedPairwiseImageLoss.__init__` (Model/LossModules.lean) -/

section ModuleNorm
variable {K : Type} [Field K] [LinearOrder K] [IsStrictOrderedRing K]

/-- the documented forms of the `norm` argument: `True` is the same as `None`; `False` switches the
    normalisation off (`self.norm = None`); a number or tensor is stored as it is; `None` with both images
    gives `max_difference(source, target)²`; with one image the other is substituted; with no image nothing is
    divided.  `forward` passes the stored value to the functional form (`moduleLoss`, definitionally). -/
theorem C16_module_norm_forms (v : K) (s t : Option (Img K)) (p q : Img K) :
    moduleNorm .true s t = moduleNorm .none s t ∧
    moduleNorm .false s t = none ∧
    moduleNorm (.value v) s t = some v ∧
    moduleNorm .none (some p) (some q) = some ((maxDifference p.1 q.1 p.2 q.2) ^ 2) ∧
    moduleNorm .none (some p) none = moduleNorm .none (some p) (some p) ∧
    moduleNorm .none none (some q) = moduleNorm .none (some q) (some q) ∧
    moduleNorm (α := K) .none none none = none ∧
    (∀ kind red arg x y mask,
      moduleLoss kind red arg s t x y mask = pointwiseLoss kind red x y mask (moduleNorm arg s t)) :=
  ⟨rfl, rfl, rfl, by rw [moduleNorm_both, sq], rfl, rfl, rfl, fun _ _ _ _ _ _ => rfl⟩

/-- the factor does not depend on which image is called source and which target
    (`max_difference` is `max(|smax − tmin|, |tmax − smin|)`), for every form of the argument. -/
theorem C16_module_norm_symmetric (arg : NormArg K) (s t : Option (Img K)) (n m : Nat) (f g : Nat → K) :
    moduleNorm arg s t = moduleNorm arg t s ∧
    maxDifference n m f g = maxDifference m n g f ∧
    maxDifference n m f g = max |maxTo n f - minTo m g| |maxTo m g - minTo n f| :=
  ⟨moduleNorm_symm arg s t, maxDifference_symm n m f g, maxDifference_eq n m f g⟩

/-- intensities rescaled by `v ↦ c·v + b` with ANY `c ≠ 0` (for `c < 0` minimum and maximum trade places):
    `max_difference` scales by `|c|`, the default factor by `c²`, and the default-normalised SSD
    (`reduction = sum`, any other reduction too) and MSE (`L2ImageLoss`, mean) of the rescaled images equal
    those of the original images whenever a positive factor is in effect (the factor is `0` exactly when both
    reference images are one and the same constant; `C16_module_norm_positive`). -/
theorem C16_module_norm_scale (c b : K) (hc : c ≠ 0) (s t : Option (Img K)) (n m : Nat) (f g : Nat → K) :
    maxDifference n m (fun i => c * f i + b) (fun i => c * g i + b) = |c| * maxDifference n m f g ∧
    moduleNorm .none (s.map (Img.affine c b)) (t.map (Img.affine c b))
      = (moduleNorm .none s t).map (fun v => c ^ 2 * v) ∧
    (∀ v, moduleNorm .none s t = some v → 0 < v → ∀ (x y : T K) (mask : Option (T K)),
      let x' : T K := ⟨x.shape, fun i => c * x.data i + b⟩
      let y' : T K := ⟨y.shape, fun i => c * y.data i + b⟩
      (∀ red, moduleLoss .ssd red .none (s.map (Img.affine c b)) (t.map (Img.affine c b)) x' y' mask
        = moduleLoss .ssd red .none s t x y mask) ∧
      NormalizedClass.SSD.forward .none (s.map (Img.affine c b)) (t.map (Img.affine c b)) x' y' mask
        = NormalizedClass.SSD.forward .none s t x y mask ∧
      NormalizedClass.L2.forward .none (s.map (Img.affine c b)) (t.map (Img.affine c b)) x' y' mask
        = NormalizedClass.L2.forward .none s t x y mask) :=
  ⟨maxDifference_affine n m f g c b hc, moduleNorm_affine c b hc s t, fun v hv hpos x y mask =>
    ⟨fun red => moduleLoss_ssd_affine c b hc red s t x y mask v hv hpos,
     moduleLoss_ssd_affine c b hc .sum s t x y mask v hv hpos,
     moduleLoss_ssd_affine c b hc .mean s t x y mask v hv hpos⟩⟩

/-- the default factor is never negative, and it is positive as soon as the two reference images differ in
    their extrema (`smax ≠ tmin` or `tmax ≠ smin`) — so the division in the functional form takes place. -/
theorem C16_module_norm_positive (s t : Option (Img K)) (v : K) (h : moduleNorm .none s t = some v)
    (p q : Img K) :
    0 ≤ v ∧ (maxTo p.1 p.2 ≠ minTo q.1 q.2 ∨ maxTo q.1 q.2 ≠ minTo p.1 p.2 →
      ∃ w, moduleNorm .none (some p) (some q) = some w ∧ 0 < w) := by
  refine ⟨moduleNorm_nonneg s t v h, fun hne => ⟨_, moduleNorm_both p q, ?_⟩⟩
  have h0 : 0 < maxDifference p.1 q.1 p.2 q.2 := by
    rw [maxDifference_eq]
    rcases hne with hne | hne
    · exact lt_max_of_lt_left (abs_pos.mpr (sub_ne_zero.mpr hne))
    · exact lt_max_of_lt_right (abs_pos.mpr (sub_ne_zero.mpr hne))
  exact mul_pos h0 h0

end ModuleNorm

/-- concrete instance: source `[1, 4, 2]`, target `[0, 3]`: `max(|4 − 0|, |3 − 1|)² = 16`; every argument form;
    rescaling by `v ↦ −2·v + 5` multiplies the factor by 4 and leaves the default-normalised SSD (11/16) and
    MSE of `x = [1, 4, 2]`, `y = [0, 3, 5]` unchanged. -/
example :
    let s : Img ℚ := (3, fun i => [1, 4, 2].getD i 0)
    let t : Img ℚ := (2, fun i => [0, 3].getD i 0)
    let x : T ℚ := ⟨[1, 1, 3], fun i => [1, 4, 2].getD i 0⟩
    let y : T ℚ := ⟨[1, 1, 3], fun i => [0, 3, 5].getD i 0⟩
    let x' : T ℚ := ⟨[1, 1, 3], fun i => -2 * x.data i + 5⟩
    let y' : T ℚ := ⟨[1, 1, 3], fun i => -2 * y.data i + 5⟩
    moduleNorm .none (some s) (some t) = some 16 ∧ moduleNorm .true (some s) (some t) = some 16 ∧
    moduleNorm .none (some s) none = some 9 ∧ moduleNorm .none none (some t) = some 9 ∧
    moduleNorm .false (some s) (some t) = none ∧ moduleNorm (.value (7 / 2)) (some s) (some t) = some (7 / 2) ∧
    moduleNorm .none (some (Img.affine (-2) 5 s)) (some (Img.affine (-2) 5 t)) = some 64 ∧
    NormalizedClass.SSD.forward .none (some s) (some t) x y none = .ok [11 / 16] ∧
    NormalizedClass.SSD.forward .none (some (Img.affine (-2) 5 s)) (some (Img.affine (-2) 5 t)) x' y' none = .ok [11 / 16] ∧
    NormalizedClass.L2.forward .true (some s) (some t) x y none = .ok [11 / 48] ∧
    NormalizedClass.SSD.forward .false (some s) (some t) x y none = .ok [11] := by
  decide +kernel

end Deepali
