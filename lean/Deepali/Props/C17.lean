/-
  Props/C17.lean — property C17: deformation regularisers have the right null space, sign, scaling
  and units.  Only property theorems and non-vacuity examples; helper lemmas are in
  Deepali/Proofs/Regularizers{,FD,Laws,Lame,Wrap,IC}.lean, the model is Deepali/Model/Regularizers.lean.

  Conventions.  `bendingField ev be u idx` etc. is the value of the 'none' tensor of one batch item at
  output grid point `idx`; `be` is the derivative back end (`fdBackend mode sz h` = the finite-difference
  family of `spatial_derivatives` for a mode, grid size and spacing row; `.bspline …` for mode='bspline');
  `regFinish red half (.batch pts items)` is the common frame (`reduce_loss`, optional `·0.5`).
  Sampled affine flow: `affFlow A h t i idx = Σ_j A i j (h_j idx_j) + t_i` (C12's convention), so the
  analytic Jacobian is `A`.  Theorems hold for every dimension `D ≥ 1` unless a statement says D ∈ {2, 3}
  (`flow_derivatives` itself accepts D ∈ {2, 3} only).

  DESIGN §5.0 I-3 (C17 does not carve out boundary points).  After the repair of F-17d (replicate-padded
  prewitt / sobel averaging) the DEFAULT mode of bending / curvature (sobel), prewitt and
  forward_central_backward (the default of the gradient terms) are exact on affine fields at EVERY grid point:
  the null-space and analytic-value theorems hold at every point and for the reduced loss
  (`EverywhereMode`).  For the explicitly one-sided / central replicate-padded schemes (forward, backward,
  central) they hold at the margin-2 resp. `ExactAt` points only; that they FAIL in the padded layer is proved
  as `C17_bending_forward_affine_refuted` / `C17_grad_forward_affine_refuted` (findings F-17d', F-17d'', not
  repaired; mode='gaussian', F-17i, is not modelled).
  The model follows /repo after the repairs of F-17a/b/c/e/f/g/h (fix commits 4eb1789, eb24e6a, a498630,
  1259250, 363ef5e, aeea172) and F-17d (ebd9a4d): their clauses are proved in full (`C17_lame`,
  `C17_ic_units`, `C17_ic_reductions`, `C17_elasticity_bspline`, `C17_affine_zero_reduced`).

  OBLIGATIONS: C17_bending_affine_zero C17_curvature_affine_zero C17_affine_zero_reduced
    C17_bending_forward_affine_refuted C17_grad_forward_affine_refuted C17_add_affine_invariant
    C17_grad_terms_translation_zero C17_translation_zero_reduced C17_affine_values C17_affine_values_everywhere
    C17_affine_values_23
    C17_nonneg C17_quadratic_scaling C17_quadratic_scaling_fd C17_scaling_reduced C17_spacing_power C17_tv_scaling
    C17_linear_transform_zero C17_reductions
    C17_lame
    C17_inverse_consistency_zero C17_inverse_consistency_zero_loss
    C17_ic_units C17_ic_reductions
    C17_bspline_bending_analytic C17_elasticity_bspline

-/
import Deepali.Proofs.RegularizersIC
import Deepali.Proofs.RegularizersLame
import Deepali.Proofs.Examples
import Deepali.Model.BSpline
import Mathlib.Tactic.NormNum
import Mathlib.Tactic.FinCases

set_option linter.unusedSectionVars false

namespace Deepali
open FD Loss Reg Matrix

section Field
variable {K : Type} [Field K] [CharZero K] {D : Nat}

/-! ## null space: affine fields -/

/-- all grid points of the box. -/
def InBoxD (sz : Fin D → Nat) (idx : Idx D) : Prop := ∀ d, 0 ≤ idx d ∧ idx d < (sz d : Int)

/-- the schemes that are exact on affine fields at EVERY grid point: forward_central_backward and —
    since the repair of F-17d (replicate-padded averaging) — prewitt and sobel.  `bending_loss` and
    `curvature_loss` default to sobel, the gradient terms to forward_central_backward. -/
def EverywhereMode (mode : SDMode) : Prop := mode = .fcb ∨ mode = .prewitt ∨ mode = .sobel

example : ∃ m, secondOrderMode none = .fd m ∧ EverywhereMode m := ⟨.sobel, rfl, Or.inr (Or.inr rfl)⟩
example : ∃ m, firstOrderMode none = .fd m ∧ EverywhereMode m := ⟨.fcb, rfl, Or.inl rfl⟩

/-- bending energy density of a sampled affine flow `A x + t` (any spacing `h ≠ 0`, any dimension):
    zero at every margin-2 interior point for EVERY finite-difference mode, and at EVERY grid point
    (sizes ≥ 2) for the default mode (sobel), prewitt and forward_central_backward. -/
theorem C17_bending_affine_zero (hD : 0 < D) (mode : SDMode) (sz : Fin D → Nat) (A : Fin D → Fin D → K) (h t : Fin D → K)
    (hh : ∀ d, h d ≠ 0) (idx : Idx D) :
    (Interior2 sz idx → bendingField id (fdBackend mode sz h) (affFlow A h t) idx = some 0) ∧
    (EverywhereMode mode → (∀ d, 2 ≤ sz d) → InBoxD sz idx →
      bendingField id (fdBackend mode sz h) (affFlow A h t) idx = some 0) := by
  constructor
  · intro hint
    exact bendingField_zero hD _ _ _ _ (fun i a b => second_affine_interior mode sz (A i) h (t i) hh a b idx hint)
  · intro hm hsz hb
    exact bendingField_zero hD _ _ _ _ (fun i a b => C12_second_affine_zero mode hm sz hsz (A i) h (t i) hh a b idx hb)

/-- the same for the curvature density (unmixed second derivatives). -/
theorem C17_curvature_affine_zero (mode : SDMode) (sz : Fin D → Nat) (A : Fin D → Fin D → K) (h t : Fin D → K)
    (hh : ∀ d, h d ≠ 0) (idx : Idx D) :
    (Interior2 sz idx → curvatureField id (fdBackend mode sz h) (affFlow A h t) idx = some 0) ∧
    (EverywhereMode mode → (∀ d, 2 ≤ sz d) → InBoxD sz idx →
      curvatureField id (fdBackend mode sz h) (affFlow A h t) idx = some 0) := by
  constructor
  · intro hint
    exact curvatureField_zero _ _ _ _ (fun i j => second_affine_interior mode sz (A i) h (t i) hh j j idx hint)
  · intro hm hsz hb
    exact curvatureField_zero _ _ _ _ (fun i j => C12_second_affine_zero mode hm sz hsz (A i) h (t i) hh j j idx hb)

/-- default mode (sobel), prewitt, forward_central_backward: the *reduced* bending and curvature losses
    of a batch of sampled affine flows (per-item matrices, translations, spacing rows; any size ≥ 2 per axis)
    are zero for every reduction: every returned value is 0 ('none': all of them; 'mean' / 'sum': the single value). -/
theorem C17_affine_zero_reduced (hD : 0 < D) (mode : SDMode) (hm : EverywhereMode mode) (sz : Fin D → Nat)
    (hsz : ∀ d, 2 ≤ sz d) (red : Reduction)
    (items : List ((Fin D → Fin D → K) × (Fin D → K) × (Fin D → K))) (hh : ∀ it ∈ items, ∀ d, it.2.1 d ≠ 0) :
    (∃ r, regFinish red false (.batch (boxPoints sz)
        (items.map (fun it => bendingField id (fdBackend mode sz it.2.1) (affFlow it.1 it.2.1 it.2.2)))) = .ok r ∧ ∀ v ∈ r, v = 0) ∧
    (∃ r, regFinish red true (.batch (boxPoints sz)
        (items.map (fun it => curvatureField id (fdBackend mode sz it.2.1) (affFlow it.1 it.2.1 it.2.2)))) = .ok r ∧ ∀ v ∈ r, v = 0) := by
  have hpos : ∀ d, 0 < sz d := fun d => by have := hsz d; omega
  constructor
  · apply regFinish_zero
    intro f hf idx hidx
    obtain ⟨it, hit, rfl⟩ := List.mem_map.mp hf
    exact (C17_bending_affine_zero hD mode sz it.1 it.2.1 it.2.2 (hh it hit) idx).2 hm hsz (boxPoints_inBox sz hpos idx hidx)
  · apply regFinish_zero
    intro f hf idx hidx
    obtain ⟨it, hit, rfl⟩ := List.mem_map.mp hf
    exact (C17_curvature_affine_zero mode sz it.1 it.2.1 it.2.2 (hh it hit) idx).2 hm hsz (boxPoints_inBox sz hpos idx hidx)

example : Interior2 (D := 2) (fun _ => 5) (fun _ => 2) := by intro d; simp
example : InBoxD (D := 2) (fun _ => 5) (fun _ => 0) := by intro d; simp

/-- adding a sampled affine flow does not change the bending / curvature densities: at margin-2
    interior points for every mode, at every grid point for sobel (default), prewitt and
    forward_central_backward. -/
theorem C17_add_affine_invariant (hD : 0 < D) (mode : SDMode) (sz : Fin D → Nat) (A : Fin D → Fin D → K) (h t : Fin D → K)
    (hh : ∀ d, h d ≠ 0) (u : Fin D → Arr D K) (idx : Idx D)
    (hpt : Interior2 sz idx ∨ (EverywhereMode mode ∧ (∀ d, 2 ≤ sz d) ∧ InBoxD sz idx)) :
    bendingField id (fdBackend mode sz h) (fun i x => u i x + affFlow A h t i x) idx
      = bendingField id (fdBackend mode sz h) u idx ∧
    curvatureField id (fdBackend mode sz h) (fun i x => u i x + affFlow A h t i x) idx
      = curvatureField id (fdBackend mode sz h) u idx := by
  have hz : ∀ (i a b : Fin D), sdStep mode sz h b (sdStep mode sz h a (affField (A i) h (t i))) idx = 0 := by
    intro i a b
    rcases hpt with hint | ⟨hm, hsz, hb⟩
    · exact second_affine_interior mode sz (A i) h (t i) hh a b idx hint
    · exact C12_second_affine_zero mode hm sz hsz (A i) h (t i) hh a b idx hb
  have hH : ∀ (i a b : Fin D), Hval id (fdBackend mode sz h) (fun i x => u i x + affFlow A h t i x) idx i [a, b]
      = 1 * Hval id (fdBackend mode sz h) u idx i [a, b] := by
    intro i a b
    have := congrFun ((fdBackend_linear mode sz h).add [a, b] (u i) (affFlow A h t i)) idx
    simp only [Hval, id, one_mul]
    rw [this]
    have e : (fdBackend mode sz h).op [a, b] (affFlow A h t i) idx = 0 := hz i a b
    rw [e, add_zero]
  constructor
  · rw [bendingField_smulH hD id _ _ u _ idx 1 hH]
    cases bendingField id (fdBackend mode sz h) u idx <;> simp
  · rw [curvatureField_smulH id _ _ u _ idx 1 (fun i j => hH i j j)]
    cases curvatureField id (fdBackend mode sz h) u idx <;> simp


/-! ## null space: translations -/

/-- a constant field `u_i ≡ t_i`. -/
def constFlow (t : Fin D → K) : Fin D → Arr D K := fun i _ => t i

/-- every regulariser density vanishes for a constant field at EVERY grid point (padding included),
    for every finite-difference mode, spacing and dimension: diffusion, total variation, the general
    gradient loss (any `p`, `q` with `applyP p 0 = 0`, `applyQ q 0 = 0` — e.g. integers p ≥ 0, q ≥ 0),
    divergence, elasticity (any λ, μ), and also bending and curvature. -/
theorem C17_grad_terms_translation_zero [LT K] [DecidableRel (α := K) (· < ·)] [DecidableEq K] (hD : 0 < D) (mode : SDMode)
    (sz : Fin D → Nat) (h t : Fin D → K) (idx : Idx D) (p : PPow K) (q : QPow K)
    (hp : applyP p 0 = 0) (hq : applyQ q 0 = 0) (lambd mu : K) :
    gradField id (fdBackend mode sz h) p q (constFlow t) idx = some 0 ∧
    divergenceField id (fdBackend mode sz h) (constFlow t) idx = some 0 ∧
    elasticityField id (fdBackend mode sz h) lambd mu (constFlow t) idx = some 0 ∧
    bendingField id (fdBackend mode sz h) (constFlow t) idx = some 0 ∧
    curvatureField id (fdBackend mode sz h) (constFlow t) idx = some 0 := by
  have h1 : ∀ (i j : Fin D), Hval id (fdBackend mode sz h) (constFlow t) idx i [j] = 0 := by
    intro i j
    exact congrFun (fd_op_const mode sz h [j] (by simp) (t i)) idx
  have h2 : ∀ (i a b : Fin D), Hval id (fdBackend mode sz h) (constFlow t) idx i [a, b] = 0 := by
    intro i a b
    exact congrFun (fd_op_const mode sz h [a, b] (by simp) (t i)) idx
  exact ⟨gradField_zero hD _ _ p q hp hq _ _ h1, divergenceField_zero hD _ _ _ _ h1,
    elasticityField_zero _ _ lambd mu _ _ h1, bendingField_zero hD _ _ _ _ h2,
    curvatureField_zero _ _ _ _ (fun i j => h2 i j j)⟩

/-- integer exponents satisfy the side conditions of `C17_grad_terms_translation_zero`. -/
example [LinearOrder K] [IsStrictOrderedRing K] : applyP (.nat 2 : PPow K) 0 = 0 ∧ applyQ (.nat 1 : QPow K) 0 = 0 ∧
    applyP (.nat 1 : PPow K) 0 = 0 := by
  refine ⟨by simp [applyP, powNat], by simp [applyQ], by simp [applyP, absv]⟩

/-- … hence the reduced diffusion / total-variation / grad / divergence / elasticity losses of a batch of
    translations are zero for every reduction and mode. -/
theorem C17_translation_zero_reduced [LT K] [DecidableRel (α := K) (· < ·)] [DecidableEq K] (hD : 0 < D) (mode : SDMode)
    (sz : Fin D → Nat) (red : Reduction) (half : Bool) (items : List ((Fin D → K) × (Fin D → K)))
    (p : PPow K) (q : QPow K) (hp : applyP p 0 = 0) (hq : applyQ q 0 = 0) (lambd mu : K) :
    (∃ r, regFinish red half (.batch (boxPoints sz)
        (items.map (fun it => gradField id (fdBackend mode sz it.1) p q (constFlow it.2)))) = .ok r ∧ ∀ v ∈ r, v = 0) ∧
    (∃ r, regFinish red half (.batch (boxPoints sz)
        (items.map (fun it => divergenceField id (fdBackend mode sz it.1) (constFlow it.2)))) = .ok r ∧ ∀ v ∈ r, v = 0) ∧
    (∃ r, regFinish red half (.batch (boxPoints sz)
        (items.map (fun it => elasticityField id (fdBackend mode sz it.1) lambd mu (constFlow it.2)))) = .ok r ∧ ∀ v ∈ r, v = 0) := by
  refine ⟨?_, ?_, ?_⟩ <;>
  · apply regFinish_zero
    intro f hf idx _
    obtain ⟨it, _, rfl⟩ := List.mem_map.mp hf
    have := C17_grad_terms_translation_zero hD mode sz it.1 it.2 idx p q hp hq lambd mu
    first | exact this.1 | exact this.2.1 | exact this.2.2.1

/-! ## analytic values on affine fields -/

/-- at every point where the scheme is exact (`ExactAt`: EVERY grid point for forward_central_backward and —
    since the repair of F-17d — prewitt and sobel; margin 1 for central, one-sided margins for forward /
    backward) the densities of a
    sampled affine flow are the closed forms in its Jacobian `A`: `gradPt p q A` (diffusion: `Σ A_ij²`,
    before the final `·0.5`), `elasticityPt λ μ A`, and the squared accumulated diagonal for divergence. -/
theorem C17_affine_values [LT K] [DecidableRel (α := K) (· < ·)] [DecidableEq K] (hD : 0 < D) (mode : SDMode)
    (sz : Fin D → Nat) (A : Fin D → Fin D → K) (h t : Fin D → K) (hh : ∀ d, h d ≠ 0) (idx : Idx D)
    (hex : ExactAt mode sz idx) (p : PPow K) (q : QPow K) (lambd mu : K) :
    gradField id (fdBackend mode sz h) p q (affFlow A h t) idx = gradPt p q A ∧
    gradField id (fdBackend mode sz h) (.nat 2) (.nat 1) (affFlow A h t) idx
      = some (((List.finRange D).map (fun j => ((List.finRange D).map (fun c => A c j * A c j)).sum)).sum) ∧
    elasticityField id (fdBackend mode sz h) lambd mu (affFlow A h t) idx = some (elasticityPt lambd mu A) ∧
    divergenceField id (fdBackend mode sz h) (affFlow A h t) idx
      = some (((dedupFirst (divergenceKeys D)).map (fun key => A key.1 key.1)).sum
            * ((dedupFirst (divergenceKeys D)).map (fun key => A key.1 key.1)).sum) := by
  have hH : (fun i j => Hval id (fdBackend mode sz h) (affFlow A h t) idx i [j]) = A := by
    funext i j
    exact sdStep_affine_exact mode sz (A i) h (t i) hh idx hex j
  refine ⟨?_, ?_, ?_, ?_⟩
  · rw [gradField_eq, hH]
  · rw [gradField_eq, hH, gradPt_diffusion hD]
  · rw [elasticityField_eq, hH]
  · rw [divergenceField_eq hD]
    have : ((dedupFirst (divergenceKeys D)).map (fun key => Hval id (fdBackend mode sz h) (affFlow A h t) idx key.1 (sortKey key.2)))
        = (dedupFirst (divergenceKeys D)).map (fun key => A key.1 key.1) := by
      apply List.map_congr_left
      intro key hkey
      have hmem := (mem_dedupFirst _ _).mp hkey
      unfold divergenceKeys at hmem
      simp only [List.mem_map, List.mem_finRange, true_and] at hmem
      obtain ⟨k, rfl⟩ := hmem
      exact congrFun (congrFun hH k) k
    rw [this]

/-- D = 2 and D = 3 written out: divergence density `(tr A)²`, elasticity density
    `λ/2 (tr A)² + μ/4 Σ_jk (A_jk + A_kj)²` (for λ, μ ≠ 0; the code skips a term whose constant is 0). -/
theorem C17_affine_values_23 [DecidableEq K] :
    (∀ (A : Fin 2 → Fin 2 → K), ((dedupFirst (divergenceKeys 2)).map (fun key => A key.1 key.1)).sum = Matrix.trace (toM A)) ∧
    (∀ (A : Fin 3 → Fin 3 → K), ((dedupFirst (divergenceKeys 3)).map (fun key => A key.1 key.1)).sum = Matrix.trace (toM A)) ∧
    (∀ (lambd mu : K) (A : Fin 2 → Fin 2 → K), lambd ≠ 0 → mu ≠ 0 → elasticityPt lambd mu A
        = lambd / 2 * (Matrix.trace (toM A)) ^ 2 + mu / 4 * ∑ j, ∑ k, (A j k + A k j) ^ 2) ∧
    (∀ (lambd mu : K) (A : Fin 3 → Fin 3 → K), lambd ≠ 0 → mu ≠ 0 → elasticityPt lambd mu A
        = lambd / 2 * (Matrix.trace (toM A)) ^ 2 + mu / 4 * ∑ j, ∑ k, (A j k + A k j) ^ 2) := by
  have k2 : dedupFirst (divergenceKeys 2) = [((0 : Fin 2), [(0 : Fin 2)]), (1, [1])] := by decide
  have k3 : dedupFirst (divergenceKeys 3) = [((0 : Fin 3), [(0 : Fin 3)]), (1, [1]), (2, [2])] := by decide
  refine ⟨?_, ?_, ?_, ?_⟩
  · intro A; rw [k2]; simp [Matrix.trace, Fin.sum_univ_two]
  · intro A; rw [k3]; simp [Matrix.trace, Fin.sum_univ_three]; ring
  · intro lambd mu A hl hm
    have f2 : List.finRange 2 = [(0 : Fin 2), 1] := by decide
    unfold elasticityPt
    simp only [Nat.cast_zero, ne_eq, hl, hm, not_false_eq_true, if_true, f2, List.foldl_cons, List.foldl_nil, List.flatMap_cons,
      List.flatMap_nil, List.map_cons, List.map_nil, List.append_nil, List.cons_append, List.nil_append, Matrix.trace,
      Fin.sum_univ_two, Matrix.diag, toM_apply]
    push_cast; ring
  · intro lambd mu A hl hm
    have f3 : List.finRange 3 = [(0 : Fin 3), 1, 2] := by decide
    unfold elasticityPt
    simp only [Nat.cast_zero, ne_eq, hl, hm, not_false_eq_true, if_true, f3, List.foldl_cons, List.foldl_nil, List.flatMap_cons,
      List.flatMap_nil, List.map_cons, List.map_nil, List.append_nil, List.cons_append, List.nil_append, Matrix.trace,
      Fin.sum_univ_three, Matrix.diag, toM_apply]
    push_cast; ring

example : ExactAt (D := 2) .sobel (fun _ => 5) (fun _ => 0) := by intro a; simp

theorem exactAt_everywhere (mode : SDMode) (hm : EverywhereMode mode) (sz : Fin D → Nat) (hsz : ∀ d, 2 ≤ sz d)
    (idx : Idx D) (hb : InBoxD sz idx) : ExactAt mode sz idx := by
  rcases hm with rfl | rfl | rfl <;> exact fun a => ⟨(hb a).1, (hb a).2, hsz a⟩

/-- forward_central_backward (the default of the gradient terms), prewitt and sobel: diffusion, total
    variation, the general gradient loss, elasticity and divergence of a sampled affine flow take their
    analytic values at EVERY grid point (any size ≥ 2 per axis, any spacing), hence so do the reduced losses:
    'none' returns the analytic value at every point (with the final `·0.5` where the code has it). -/
theorem C17_affine_values_everywhere [LT K] [DecidableRel (α := K) (· < ·)] [DecidableEq K] (hD : 0 < D) (mode : SDMode)
    (hm : EverywhereMode mode) (sz : Fin D → Nat) (hsz : ∀ d, 2 ≤ sz d) (A : Fin D → Fin D → K) (h t : Fin D → K)
    (hh : ∀ d, h d ≠ 0) (p : PPow K) (q : QPow K) (lambd mu : K) :
    (∀ idx, InBoxD sz idx →
      gradField id (fdBackend mode sz h) p q (affFlow A h t) idx = gradPt p q A ∧
      gradField id (fdBackend mode sz h) (.nat 2) (.nat 1) (affFlow A h t) idx
        = some (((List.finRange D).map (fun j => ((List.finRange D).map (fun c => A c j * A c j)).sum)).sum) ∧
      elasticityField id (fdBackend mode sz h) lambd mu (affFlow A h t) idx = some (elasticityPt lambd mu A) ∧
      divergenceField id (fdBackend mode sz h) (affFlow A h t) idx
        = some (((dedupFirst (divergenceKeys D)).map (fun key => A key.1 key.1)).sum
              * ((dedupFirst (divergenceKeys D)).map (fun key => A key.1 key.1)).sum)) ∧
    (∀ (half : Bool), regFinish .none half (.batch (boxPoints sz) [elasticityField id (fdBackend mode sz h) lambd mu (affFlow A h t)])
      = .ok ((boxPoints sz).map (fun _ => elasticityPt lambd mu A * (if half then 1 / 2 else 1)))) := by
  have hpt : ∀ idx, InBoxD sz idx → _ := fun idx hb =>
    C17_affine_values hD mode sz A h t hh idx (exactAt_everywhere mode hm sz hsz idx hb) p q lambd mu
  refine ⟨hpt, ?_⟩
  intro half
  have hpos : ∀ d, 0 < sz d := fun d => by have := hsz d; omega
  have hv : ([elasticityField id (fdBackend mode sz h) lambd mu (affFlow A h t)].flatMap (fun f => (boxPoints sz).map f)).mapM id
      = some ((boxPoints sz).map (fun _ => elasticityPt lambd mu A)) := by
    apply mapM_id_some
    simp only [List.flatMap_cons, List.flatMap_nil, List.append_nil, List.map_map]
    apply List.map_congr_left
    intro idx hidx
    exact (hpt idx (boxPoints_inBox sz hpos idx hidx)).2.2.1
  unfold regFinish
  simp only [hv, reduceVals_none]
  cases half <;> simp

/-! ## linear transformations, reductions -/

/-- every regulariser returns 0 for a linear transformation (a tensor with fewer than four
    dimensions) with 'mean' / 'sum', and raises NotImplementedError for 'none' (`half`: with or
    without the final `·0.5`). -/
theorem C17_linear_transform_zero (half : Bool) :
    regFinish .mean half (RegInput.linear : RegInput D K) = .ok [0] ∧
    regFinish .sum half (RegInput.linear : RegInput D K) = .ok [0] ∧
    regFinish .none half (RegInput.linear : RegInput D K) = .error "err:notimpl" := by
  refine ⟨?_, ?_, ?_⟩ <;> simp [regFinish]

/-- 'sum' is the sum of the 'none' values and 'mean' is that sum divided by their number — for
    every regulariser (they all end in `regFinish`), with the final `·0.5` where the code has it
    (C16's `reduce_loss` theorem, reused). -/
theorem C17_reductions (half : Bool) (pts : List (Idx D)) (items : List (Idx D → Option K)) (vals : List K)
    (hv : (items.flatMap (fun f => pts.map f)).mapM id = some vals) :
    let c : K := if half then 1 / 2 else 1
    regFinish .none half (.batch pts items) = .ok (vals.map (fun v => v * c)) ∧
    regFinish .sum half (.batch pts items) = .ok [lsum vals * c] ∧
    regFinish .mean half (.batch pts items) = .ok [lsum vals / ((vals.length : Nat) : K) * c] := by
  have hs := reduceVals_sum_mean vals
  rw [reduceVals_none] at hs
  intro c
  unfold regFinish
  simp only [hv, hs.1, hs.2, reduceVals_none]
  cases half <;> simp [c]


/-! ## scaling with the field and with the spacing -/

/-- quadratic regularisers scale with the square of the field: for ANY linear derivative back end
    (every finite-difference mode — `C17_quadratic_scaling_fd` — and the B-spline kernels), at every
    output point, `L(c·u) = c²·L(u)` for bending, curvature, diffusion, divergence and elasticity. -/
theorem C17_quadratic_scaling [LT K] [DecidableRel (α := K) (· < ·)] [DecidableEq K] (hD : 0 < D)
    (be : Backend D (Arr D K)) (hlin : be.Linear) (u : Fin D → Arr D K) (c : K) (idx : Idx D) (lambd mu : K) :
    let cu : Fin D → Arr D K := fun i x => c * u i x
    bendingField id be cu idx = (bendingField id be u idx).map (fun v => c * c * v) ∧
    curvatureField id be cu idx = (curvatureField id be u idx).map (fun v => c * c * v) ∧
    gradField id be (.nat 2) (.nat 1) cu idx = (gradField id be (.nat 2) (.nat 1) u idx).map (fun v => c * c * v) ∧
    divergenceField id be cu idx = (divergenceField id be u idx).map (fun v => c * c * v) ∧
    elasticityField id be lambd mu cu idx = (elasticityField id be lambd mu u idx).map (fun v => c * c * v) := by
  intro cu
  have hH : ∀ (i : Fin D) (k : DKey D), Hval id be cu idx i k = c * Hval id be u idx i k := by
    intro i k
    exact congrFun (hlin.smul k c (u i)) idx
  exact ⟨bendingField_smulH hD id be be u cu idx c (fun i a b => hH i _),
    curvatureField_smulH id be be u cu idx c (fun i j => hH i _),
    diffusionField_smulH hD id be be u cu idx c (fun i j => hH i _),
    divergenceField_smulH hD id be be u cu idx c (fun i j => hH i _),
    elasticityField_smulH id be be lambd mu u cu idx c (fun i j => hH i _)⟩

/-- every finite-difference mode of `spatial_derivatives` is a linear back end (any size, spacing,
    padding included), and so is mode='bspline' (any strides / weight tables / spacing), so
    `C17_quadratic_scaling` applies to all seven. -/
theorem C17_quadratic_scaling_fd (mode : SDMode) (sz : Fin D → Nat) (h : Fin D → K)
    (stride : Fin D → Nat) (wts : Fin D → Nat → Nat → Nat → K) :
    (fdBackend mode sz h).Linear ∧ (Backend.bspline (bsplineDeriv stride wts h) : Backend D (Arr D K)).Linear :=
  ⟨fdBackend_linear mode sz h, bsplineBackend_linear stride wts h⟩

/-- scaling every per-point value of every batch item by a factor scales the reduced loss by that
    factor, for every reduction (lifts the two pointwise scaling theorems to the returned loss). -/
theorem C17_scaling_reduced (red : Reduction) (half : Bool) (pts : List (Idx D)) (items : List (Idx D → Option K)) (c : K) :
    regFinish red half (.batch pts (items.map (fun f idx => (f idx).map (fun v => c * v))))
      = (regFinish red half (.batch pts items)).map (List.map (fun v => c * v)) :=
  regFinish_smul red half pts items c

/-- rescaling the spacing by `c` (every finite-difference mode, any field, every point): second-order
    regularisers (bending, curvature) scale by `c⁻⁴`, first-order quadratic ones (diffusion, divergence,
    elasticity) by `c⁻²`. -/
theorem C17_spacing_power [LT K] [DecidableRel (α := K) (· < ·)] [DecidableEq K] (hD : 0 < D) (mode : SDMode)
    (sz : Fin D → Nat) (h : Fin D → K) (u : Fin D → Arr D K) (c : K) (idx : Idx D) (lambd mu : K) :
    let be := fdBackend mode sz h
    let be' := fdBackend mode sz (fun d => c * h d)
    bendingField id be' u idx = (bendingField id be u idx).map (fun v => (c * c)⁻¹ * (c * c)⁻¹ * v) ∧
    curvatureField id be' u idx = (curvatureField id be u idx).map (fun v => (c * c)⁻¹ * (c * c)⁻¹ * v) ∧
    gradField id be' (.nat 2) (.nat 1) u idx = (gradField id be (.nat 2) (.nat 1) u idx).map (fun v => c⁻¹ * c⁻¹ * v) ∧
    divergenceField id be' u idx = (divergenceField id be u idx).map (fun v => c⁻¹ * c⁻¹ * v) ∧
    elasticityField id be' lambd mu u idx = (elasticityField id be lambd mu u idx).map (fun v => c⁻¹ * c⁻¹ * v) := by
  intro be be'
  have h2 : ∀ (i a b : Fin D), Hval id be' u idx i [a, b] = (c * c)⁻¹ * Hval id be u idx i [a, b] := by
    intro i a b
    have := congrFun (fd_op_two_scale mode sz h a b (u i) c) idx
    simp only [Hval, id, be, be']
    rw [this, div_eq_inv_mul]
  have h1 : ∀ (i j : Fin D), Hval id be' u idx i [j] = c⁻¹ * Hval id be u idx i [j] := by
    intro i j
    have := congrFun (fd_op_one_scale mode sz h j (u i) c) idx
    simp only [Hval, id, be, be']
    rw [this, div_eq_inv_mul]
  exact ⟨bendingField_smulH hD id be be' u u idx _ h2, curvatureField_smulH id be be' u u idx _ (fun i j => h2 i j j),
    diffusionField_smulH hD id be be' u u idx _ h1, divergenceField_smulH hD id be be' u u idx _ h1,
    elasticityField_smulH id be be' lambd mu u u idx _ h1⟩

end Field

/-! ## sign -/
section Ordered
variable {K : Type} [Field K] [LinearOrder K] [IsStrictOrderedRing K] {D : Nat} {A : Type}

/-- all regularisers are non-negative at every output point, for ANY derivative back end (every
    mode incl. bspline), field, spacing: bending, curvature, divergence, elasticity (λ, μ ≥ 0), and
    the gradient loss for exponents with `|v|^p ≥ 0` and `x ↦ x^q` non-negative on `x ≥ 0` (every
    integer `p ≥ 1` and `q ≥ 0`: diffusion, total variation). -/
theorem C17_nonneg (hD : 0 < D) (ev : A → Arr D K) (be : Backend D A) (u : Fin D → A) (idx : Idx D)
    (lambd mu : K) (hl : 0 ≤ lambd) (hm : 0 ≤ mu) (p : PPow K) (q : QPow K)
    (hp : ∀ v, 0 ≤ applyP p v) (hq : ∀ v, 0 ≤ v → 0 ≤ applyQ q v) :
    (∃ r, bendingField ev be u idx = some r ∧ 0 ≤ r) ∧ (∃ r, curvatureField ev be u idx = some r ∧ 0 ≤ r) ∧
    (∃ r, divergenceField ev be u idx = some r ∧ 0 ≤ r) ∧ (∃ r, elasticityField ev be lambd mu u idx = some r ∧ 0 ≤ r) ∧
    (∃ r, gradField ev be p q u idx = some r ∧ 0 ≤ r) ∧
    (∀ (p : Nat), 1 ≤ p → ∀ v : K, 0 ≤ applyP (.nat p) v) ∧ (∀ (q : Nat) (v : K), 0 ≤ v → 0 ≤ applyQ (.nat q) v) :=
  ⟨bendingField_nonneg hD ev be u idx, curvatureField_nonneg ev be u idx, divergenceField_nonneg hD ev be u idx,
    elasticityField_nonneg ev be lambd mu hl hm u idx, gradField_nonneg hD ev be p q hp hq u idx,
    fun p hp v => applyP_nat_nonneg p hp v, fun q v hv => applyQ_nat_nonneg q v hv⟩

/-- total variation is homogeneous of degree one: `TV(c·u) = |c|·TV(u)` for every linear back end, and
    rescaling the spacing by `c` divides it by `|c|` (every finite-difference mode), at every point. -/
theorem C17_tv_scaling [CharZero K] (hD : 0 < D) (be : Backend D (Arr D K)) (hlin : be.Linear) (u : Fin D → Arr D K) (c : K)
    (idx : Idx D) (mode : SDMode) (sz : Fin D → Nat) (h : Fin D → K) :
    gradField id be (.nat 1) (.nat 1) (fun i x => c * u i x) idx = (gradField id be (.nat 1) (.nat 1) u idx).map (fun v => |c| * v) ∧
    gradField id (fdBackend mode sz (fun d => c * h d)) (.nat 1) (.nat 1) u idx
      = (gradField id (fdBackend mode sz h) (.nat 1) (.nat 1) u idx).map (fun v => |c⁻¹| * v) := by
  constructor
  · exact tvField_smulH hD id be be u _ idx c (fun i j => congrFun (hlin.smul [j] c (u i)) idx)
  · apply tvField_smulH hD id _ _ u u idx c⁻¹
    intro i j
    have := congrFun (fd_op_one_scale mode sz h j (u i) c) idx
    simp only [Hval, id]
    rw [this, div_eq_inv_mul]

/-! ## lame_parameters -/

/-- every valid pair of elastic constants derived from one (λ, μ) — with ν = λ / (2(λ+μ)),
    E = μ(3λ+2μ)/(λ+μ), and `r` the square root the (λ, E) branch takes (`r² = E² + 9λ² + 2Eλ`, `r ≥ 0`) —
    is mapped back to (λ, μ): (λ,μ), (λ,G), (λ,ν), (G,ν), (μ,ν), (G,E), (μ,E), (λ,E), (ν,E).
    (λ, μ ≥ 10⁻⁹: below that the code rounds to 0.) -/
theorem C17_lame (l m r : K) (hl : lameTiny ≤ l) (hm : lameTiny ≤ m)
    (hr : r * r = youngOf l m * youngOf l m + 9 * (l * l) + 2 * youngOf l m * l) (hr0 : 0 ≤ r) :
    let sq : K → K := fun _ => r
    lameParameters sq .none (some l) (some m) none none none = .ok (l, m) ∧
    lameParameters sq .none (some l) none (some m) none none = .ok (l, m) ∧
    lameParameters sq .none (some l) none none (some (poissonOf l m)) none = .ok (l, m) ∧
    lameParameters sq .none none none (some m) (some (poissonOf l m)) none = .ok (l, m) ∧
    lameParameters sq .none none (some m) none (some (poissonOf l m)) none = .ok (l, m) ∧
    lameParameters sq .none none none (some m) none (some (youngOf l m)) = .ok (l, m) ∧
    lameParameters sq .none none (some m) none none (some (youngOf l m)) = .ok (l, m) ∧
    lameParameters sq .none (some l) none none none (some (youngOf l m)) = .ok (l, m) ∧
    lameParameters sq .none none none none (some (poissonOf l m)) (some (youngOf l m)) = .ok (l, m) := by
  intro sq
  exact ⟨lame_first_second sq l m hl hm, lame_first_shear sq l m hl hm, lame_first_poisson sq l m hl hm,
    lame_shear_poisson sq l m hl hm, lame_second_poisson sq l m hl hm, lame_shear_young sq l m hl hm,
    lame_second_young sq l m hl hm, lame_first_young l m r hl hm hr hr0, lame_poisson_young sq l m hl hm⟩

/-- the hypotheses are satisfiable: λ = μ = 1, E = 5/2, r = 9/2. -/
example : (lameTiny : ℚ) ≤ 1 ∧
    (9 / 2 : ℚ) * (9 / 2) = youngOf (1 : ℚ) 1 * youngOf 1 1 + 9 * (1 * 1) + 2 * youngOf 1 1 * 1 := by
  constructor
  · unfold lameTiny; norm_num
  · unfold youngOf; norm_num

end Ordered

/-! ## inverse consistency -/
section IC
variable {K : Type} [Field K] [LinearOrder K] [IsStrictOrderedRing K] [FloorRing K] {d : Nat}

/-- the inverse-consistency error vector of an exact inverse pair of affine maps vanishes at every
    grid point, for either `align_corners`, any size ≥ 2, in all four operand-kind combinations:
    matrix/matrix (pure algebra); flow/flow, matrix/flow (the sampled inverse displacement is
    interpolated exactly as long as the forward map keeps the lattice inside the sample hull — via
    C13's `compose_flows` exactness); flow/matrix. -/
theorem C17_inverse_consistency_zero (ac : Bool) (n : Fin d → Nat) (h2 : ∀ i, 2 ≤ n i)
    (Mu Mv : Mat d K) (tu tv : Vec d K) (u v : VField d K)
    (hu : ∀ idx, InBox n idx → u idx = dispOf (affMap Mu tu) (latticePoint ac n idx))
    (hv : ∀ idx, InBox n idx → v idx = dispOf (affMap Mv tv) (latticePoint ac n idx))
    (hinv : ∀ x, affMap Mv tv (affMap Mu tu x) = x)
    (idx : Fin d → Int) (hb : InBox n idx) :
    icError ac n (.lin (.hom Mu tu)) (.lin (.hom Mv tv)) idx = (fun _ => 0) ∧
    icError ac n (.flow u) (.lin (.hom Mv tv)) idx = (fun _ => 0) ∧
    ((∀ idx, InBox n idx → InHull ac n (affMap Mu tu (latticePoint ac n idx))) →
      icError ac n (.flow u) (.flow v) idx = (fun _ => 0) ∧
      icError ac n (.lin (.hom Mu tu)) (.flow v) idx = (fun _ => 0)) := by
  refine ⟨icError_lin_lin ac n (.hom Mu tu) (.hom Mv tv) (fun x => hinv x) idx,
    icError_flow_lin_affine ac n Mu tu u (.hom Mv tv) hu (fun x => hinv x) idx hb,
    fun hull => ⟨icError_flow_flow_affine ac n h2 Mu Mv tu tv u v hu hv hull hinv idx hb,
      icError_lin_flow_affine ac n h2 (.hom Mu tu) Mv tv v hv (fun idx hb => hull idx hb) (fun x => hinv x) idx hb⟩⟩

/-- … and then every value `inverse_consistency_loss` returns is 0: for every unit (cube, voxel,
    world), margin, mask and reduction (whenever it returns a value at all: an emptied region or an
    all-zero mask give nan, a float margin ≥ 1 a ValueError). -/
theorem C17_inverse_consistency_zero_loss (sqrtF : K → K) (h0 : sqrtF 0 = 0) (ac : Bool) (n : Fin d → Nat) (spacing : Vec d K)
    (fwd inv : Transform d K) (mask : Option ((Fin d → Int) → K)) (margin : Margin K) (units : Units) (red : Reduction)
    (hz : ∀ idx ∈ icPoints n, icError ac n fwd inv idx = fun _ => 0)
    (r : List K) (hr : icLoss sqrtF ac n spacing fwd inv mask margin units red = .ok r) : ∀ v ∈ r, v = 0 :=
  icLoss_zero sqrtF h0 ac n spacing fwd inv mask margin units red hz r hr

/-- the error is reported in the requested unit for EITHER `align_corners` convention: 'cube' is the
    error vector itself, 'voxel' is that vector mapped to grid (voxel) units by the grid's own vector map for
    ITS convention (C01: `Grid.transform_vectors`, i.e. `n/2` resp. `(n−1)/2` per axis), 'world' multiplies the
    voxel vector by the (anisotropic) spacing per axis — whose Euclidean norm is the world-space length for
    an orthonormal direction. -/
theorem C17_ic_units (g : Grid d K) (hv : g.Valid) (n : Fin d → Nat) (hn : ∀ i, g.sizeTensor i = (n i : K))
    (h2 : ∀ i, 2 ≤ n i) (e : Vec d K) :
    icScale .cube g.alignCorners n g.spacing e = e ∧
    icScale .voxel g.alignCorners n g.spacing e = g.transformVectors (Axes.fromAlignCorners g.alignCorners) .grid e ∧
    icScale .world g.alignCorners n g.spacing e
      = (g.transformVectors (Axes.fromAlignCorners g.alignCorners) .grid e).mul g.spacing := by
  have hc : ∀ a, g.CornersOK a := by
    intro a _ i
    rw [hn i]
    have : (2 : K) ≤ (n i : K) := by exact_mod_cast h2 i
    intro e1; rw [e1] at this; norm_num at this
  have hvox : icScale .voxel g.alignCorners n g.spacing e
      = g.transformVectors (Axes.fromAlignCorners g.alignCorners) .grid e := by
    rw [transformVectors_eq hv _ _ (hc _) (hc _), icScale_voxel g.alignCorners n h2]
    funext i
    cases hac : g.alignCorners <;> simp only [Axes.fromAlignCorners, fromGridLin, toGridLin, hn i, if_true, Bool.false_eq_true, if_false] <;> ring
  exact ⟨rfl, hvox, by rw [icScale_world, hvox]⟩

/-- 9×5 samples, spacing (3/2, 1/2), identity direction, align_corners = False. -/
def icGrid : Grid 2 ℚ := ⟨![9, 5], ![0, 0], ![3 / 2, 1 / 2], ![![1, 0], ![0, 1]], false⟩

theorem icGrid_size : icGrid.sizeTensor = ![9, 5] := by
  funext i; fin_cases i <;> simp [Grid.sizeTensor, icGrid, HasFloor.ceil]

theorem icGrid_valid : icGrid.Valid := by
  refine ⟨?_, ?_, ?_⟩
  · intro i; fin_cases i <;> simp [icGrid]
  · ext i j
    rw [Matrix.mul_apply, Fin.sum_univ_two]
    simp only [Matrix.transpose_apply, toM_apply]
    fin_cases i <;> fin_cases j <;> simp [icGrid]
  · intro i; rw [icGrid_size]; fin_cases i <;> simp

/-- non-vacuity, and the value F-17c was about: 0.1 cube units on the 9-sample axis of an
    `align_corners=False` grid are 0.45 voxel. -/
example : icScale .voxel icGrid.alignCorners ![9, 5] icGrid.spacing ![1 / 10, 0] 0 = 9 / 20 := by
  have h2 : ∀ i, 2 ≤ (![9, 5] : Fin 2 → Nat) i := by intro i; fin_cases i <;> simp
  rw [icScale_voxel _ _ h2]
  simp [icGrid]; norm_num

/-- reductions of inverse_consistency_loss: 'none' returns the per-point values, 'sum' their sum, 'mean' the
    sum divided by the number of evaluated points, or — with a mask — by the number of non-zero mask values
    INSIDE the evaluated (margin-cropped) region `kept` (0/0 is nan). -/
theorem C17_ic_reductions (mk : (Fin d → Int) → K) (kept : List (Fin d → Int)) (vals : List K) :
    (∀ mask, icReduce .none mask kept vals = .ok vals) ∧
    (∀ mask, icReduce .sum mask kept vals = .ok [lsum vals]) ∧
    (vals ≠ [] → icReduce .mean none kept vals = .ok [lsum vals / ((vals.length : Nat) : K)]) ∧
    ((kept.filter (fun idx => mk idx ≠ ((0 : Nat) : K))).length ≠ 0 →
      icReduce .mean (some mk) kept vals
        = .ok [lsum vals / ((((kept.filter (fun idx => mk idx ≠ ((0 : Nat) : K))).length : Nat) : K))]) := by
  refine ⟨fun _ => rfl, fun _ => rfl, ?_, ?_⟩
  · intro h
    have : vals.length ≠ 0 := by intro e; exact h (List.length_eq_zero_iff.mp e)
    simp [icReduce, this]
  · intro h
    simp only [icReduce, h, if_false]

end IC

/-! ## B-spline mode, default-mode boundary, elasticity in B-spline mode -/
section Misc
variable {K : Type} [Field K] [LinearOrder K] [IsStrictOrderedRing K] {D : Nat}

/-- the B-spline bending energy density is the energy of the spline's second derivatives: the sum
    over the sorted unique second-order keys of the squared (mixed: doubled) B-spline derivative
    `bsplineDeriv` of that key (separable application, per axis, of the derivative kernel of the
    key's order along that axis, divided by `Π spacing^order`); and with the kernels of the analytic
    cubic B-spline (`basis o`: what the code's weight tables are, C14_weights_are_basis) one axis of
    that evaluation at output index `j·s + r` is the `o`-th derivative of `Σ_m f(m) B(x − m)` at
    `x = j + 1 + r/s` (its four non-vanishing terms).  Stretch / partial: the identification of the
    D-dimensional separable evaluation with the analytic tensor-product spline is C14's
    (`C14_eval_is_analytic_spline`, 1-D) plus the definition of `bsplineDeriv`. -/
theorem C17_bspline_bending_analytic (hD : 0 < D) (stride : Fin D → Nat) (wts : Fin D → Nat → Nat → Nat → K)
    (sp : Fin D → K) (u : Fin D → Arr D K) (idx : Idx D) :
    bendingField id (.bspline (bsplineDeriv stride wts sp)) u idx
      = some (((dedupFirst (bendingKeys D)).map (fun key =>
          bendingTerm key (bsplineDeriv stride wts sp (sortKey key.2) (u key.1) idx))).sum) ∧
    (∀ (s o : Nat) (f : Int → K) (j : Int) (r : Nat), 0 < s → r < s →
      bsplineAxis s (fun r k => basis o (((r : Nat) : K) / ((s : Nat) : K) - (((k : Nat) : K) - 1))) f (j * (s : Int) + (r : Int))
        = let x : K := (j : K) + 1 + ((r : Nat) : K) / ((s : Nat) : K)
          basis o (x - ((j : K) + 0)) * f j + basis o (x - ((j : K) + 1)) * f (j + 1)
            + basis o (x - ((j : K) + 2)) * f (j + 2) + basis o (x - ((j : K) + 3)) * f (j + 3)) := by
  constructor
  · exact bendingField_eq hD id _ u idx
  · intro s o f j r hs hr
    have hs' : (s : Int) ≠ 0 := by exact_mod_cast (Nat.pos_iff_ne_zero.mp hs)
    have hr0 : (0 : Int) ≤ (r : Int) := Int.natCast_nonneg r
    have hrs : (r : Int) < (s : Int) := by exact_mod_cast hr
    have hdiv : (j * (s : Int) + (r : Int)) / (s : Int) = j := by
      rw [Int.add_comm, Int.add_mul_ediv_right _ _ hs', Int.ediv_eq_zero_of_lt hr0 hrs, zero_add]
    have hmod : (j * (s : Int) + (r : Int)) % (s : Int) = (r : Int) := by
      rw [Int.add_comm, Int.add_mul_emod_self_right, Int.emod_eq_of_lt hr0 hrs]
    simp only [bsplineAxis, hdiv, hmod, Int.toNat_natCast]
    have e : ∀ k : K, ((r : Nat) : K) / ((s : Nat) : K) - (k - 1) = (j : K) + 1 + ((r : Nat) : K) / ((s : Nat) : K) - ((j : K) + k) := by
      intro k; ring
    simp only [Nat.cast_zero, Nat.cast_one, Nat.cast_ofNat, e]

/-- FULL statements behind the remaining findings F-17d' / F-17d'' (I-3: C17 does not carve out boundary
    points): for `mode`, the bending and curvature densities of a sampled affine flow vanish, and the
    diffusion density is the analytic `Σ A_ij²`, at EVERY grid point (sizes ≥ 5). -/
def C17_bending_affine_everywhere_Statement (mode : SDMode) (K : Type) [Field K] : Prop :=
  ∀ (sz : Fin 2 → Nat) (A : Fin 2 → Fin 2 → K) (h t : Fin 2 → K), (∀ d, 5 ≤ sz d) → (∀ d, h d ≠ 0) →
    ∀ idx, InBoxD sz idx → bendingField id (fdBackend mode sz h) (affFlow A h t) idx = some 0

def C17_curvature_affine_everywhere_Statement (mode : SDMode) (K : Type) [Field K] : Prop :=
  ∀ (sz : Fin 2 → Nat) (A : Fin 2 → Fin 2 → K) (h t : Fin 2 → K), (∀ d, 5 ≤ sz d) → (∀ d, h d ≠ 0) →
    ∀ idx, InBoxD sz idx → curvatureField id (fdBackend mode sz h) (affFlow A h t) idx = some 0

def C17_diffusion_affine_everywhere_Statement (mode : SDMode) (K : Type) [Field K] [LT K] [DecidableRel (α := K) (· < ·)] : Prop :=
  ∀ (sz : Fin 2 → Nat) (A : Fin 2 → Fin 2 → K) (h t : Fin 2 → K), (∀ d, 5 ≤ sz d) → (∀ d, h d ≠ 0) →
    ∀ idx, InBoxD sz idx → gradField id (fdBackend mode sz h) (.nat 2) (.nat 1) (affFlow A h t) idx
      = some (A 0 0 * A 0 0 + A 1 0 * A 1 0 + (A 0 1 * A 0 1 + A 1 1 * A 1 1))

/-- witness field `u = (x + y, 0)` on a 5×5 grid with unit spacing. -/
def f17dA : Fin 2 → Fin 2 → ℚ := fun i _ => if i = 0 then 1 else 0
def f17dU : Fin 2 → Arr 2 ℚ := fun i idx => if i = 0 then (idx 0 : ℚ) + (idx 1 : ℚ) else 0

theorem f17dU_eq : affFlow f17dA (fun _ => 1) (fun _ => 0) = f17dU := by
  funext i idx
  fin_cases i <;> simp [affFlow, affField, f17dA, f17dU, Fin.sum_univ_two]

/-- grid point `(x, 0)` of the 5×5 grid. -/
def f17dP (x : Int) : Idx 2 := fun d => if d = 0 then x else 0

theorem f17dP_inBox (x : Int) (h0 : 0 ≤ x) (h1 : x < 5) : InBoxD (D := 2) (fun _ => 5) (f17dP x) := by
  intro d; fin_cases d <;> simp [f17dP, h0, h1]

/-- F-17d' (not repaired; inherent to the explicitly one-sided / central replicate-padded schemes): the
    statements fail for `forward`, `backward` and `central`.  Witness `u = (x + y, 0)`, 5×5, unit spacing:
    in the padded layer the first derivative is 0 (forward: last column; backward: first column) or halved
    (central), so its difference — a second derivative — is not 0 next to it (kernel evaluation).
    What holds: `C17_bending_affine_zero` / `C17_curvature_affine_zero` (margin-2 interior for these modes,
    every point for the default mode, prewitt and forward_central_backward). -/
theorem C17_bending_forward_affine_refuted :
    (¬ C17_bending_affine_everywhere_Statement .forward ℚ ∧ ¬ C17_bending_affine_everywhere_Statement .backward ℚ ∧
      ¬ C17_bending_affine_everywhere_Statement .central ℚ) ∧
    (¬ C17_curvature_affine_everywhere_Statement .forward ℚ ∧ ¬ C17_curvature_affine_everywhere_Statement .backward ℚ ∧
      ¬ C17_curvature_affine_everywhere_Statement .central ℚ) := by
  refine ⟨⟨?_, ?_, ?_⟩, ⟨?_, ?_, ?_⟩⟩
  · intro h
    have hv := h (fun _ => 5) f17dA (fun _ => 1) (fun _ => 0) (fun _ => le_rfl) (fun _ => one_ne_zero) (f17dP 3)
      (f17dP_inBox 3 (by norm_num) (by norm_num))
    rw [f17dU_eq] at hv
    have : bendingField id (fdBackend .forward (fun _ => 5) (fun _ => (1 : ℚ))) f17dU (f17dP 3) ≠ some 0 := by decide +kernel
    exact this hv
  · intro h
    have hv := h (fun _ => 5) f17dA (fun _ => 1) (fun _ => 0) (fun _ => le_rfl) (fun _ => one_ne_zero) (f17dP 1)
      (f17dP_inBox 1 (by norm_num) (by norm_num))
    rw [f17dU_eq] at hv
    have : bendingField id (fdBackend .backward (fun _ => 5) (fun _ => (1 : ℚ))) f17dU (f17dP 1) ≠ some 0 := by decide +kernel
    exact this hv
  · intro h
    have hv := h (fun _ => 5) f17dA (fun _ => 1) (fun _ => 0) (fun _ => le_rfl) (fun _ => one_ne_zero) (f17dP 1)
      (f17dP_inBox 1 (by norm_num) (by norm_num))
    rw [f17dU_eq] at hv
    have : bendingField id (fdBackend .central (fun _ => 5) (fun _ => (1 : ℚ))) f17dU (f17dP 1) ≠ some 0 := by decide +kernel
    exact this hv
  · intro h
    have hv := h (fun _ => 5) f17dA (fun _ => 1) (fun _ => 0) (fun _ => le_rfl) (fun _ => one_ne_zero) (f17dP 3)
      (f17dP_inBox 3 (by norm_num) (by norm_num))
    rw [f17dU_eq] at hv
    have : curvatureField id (fdBackend .forward (fun _ => 5) (fun _ => (1 : ℚ))) f17dU (f17dP 3) ≠ some 0 := by decide +kernel
    exact this hv
  · intro h
    have hv := h (fun _ => 5) f17dA (fun _ => 1) (fun _ => 0) (fun _ => le_rfl) (fun _ => one_ne_zero) (f17dP 1)
      (f17dP_inBox 1 (by norm_num) (by norm_num))
    rw [f17dU_eq] at hv
    have : curvatureField id (fdBackend .backward (fun _ => 5) (fun _ => (1 : ℚ))) f17dU (f17dP 1) ≠ some 0 := by decide +kernel
    exact this hv
  · intro h
    have hv := h (fun _ => 5) f17dA (fun _ => 1) (fun _ => 0) (fun _ => le_rfl) (fun _ => one_ne_zero) (f17dP 1)
      (f17dP_inBox 1 (by norm_num) (by norm_num))
    rw [f17dU_eq] at hv
    have : curvatureField id (fdBackend .central (fun _ => 5) (fun _ => (1 : ℚ))) f17dU (f17dP 1) ≠ some 0 := by decide +kernel
    exact this hv

/-- F-17d'' (not repaired): with `forward`, `backward`, `central` the diffusion density of the affine field
    `(x + y, 0)` (analytic value `Σ A_ij² = 2`) is NOT the analytic value in the padded layer (it is 1 resp.
    5/4), so the reduced loss is not the analytic one.  What holds: `C17_affine_values` at `ExactAt` points
    (the respective margins), `C17_affine_values_everywhere` for forward_central_backward / prewitt / sobel.
    (mode='gaussian', F-17i, is not modelled: documented by the oracles only.) -/
theorem C17_grad_forward_affine_refuted :
    ¬ C17_diffusion_affine_everywhere_Statement .forward ℚ ∧ ¬ C17_diffusion_affine_everywhere_Statement .backward ℚ ∧
    ¬ C17_diffusion_affine_everywhere_Statement .central ℚ := by
  have hval : some (f17dA 0 0 * f17dA 0 0 + f17dA 1 0 * f17dA 1 0 + (f17dA 0 1 * f17dA 0 1 + f17dA 1 1 * f17dA 1 1)) = some (2 : ℚ) := by
    simp [f17dA]; norm_num
  refine ⟨?_, ?_, ?_⟩
  · intro h
    have hv := h (fun _ => 5) f17dA (fun _ => 1) (fun _ => 0) (fun _ => le_rfl) (fun _ => one_ne_zero) (f17dP 4)
      (f17dP_inBox 4 (by norm_num) (by norm_num))
    rw [f17dU_eq, hval] at hv
    have : gradField id (fdBackend .forward (fun _ => 5) (fun _ => (1 : ℚ))) (.nat 2) (.nat 1) f17dU (f17dP 4) ≠ some 2 := by
      decide +kernel
    exact this hv
  · intro h
    have hv := h (fun _ => 5) f17dA (fun _ => 1) (fun _ => 0) (fun _ => le_rfl) (fun _ => one_ne_zero) (f17dP 0)
      (f17dP_inBox 0 (by norm_num) (by norm_num))
    rw [f17dU_eq, hval] at hv
    have : gradField id (fdBackend .backward (fun _ => 5) (fun _ => (1 : ℚ))) (.nat 2) (.nat 1) f17dU (f17dP 0) ≠ some 2 := by
      decide +kernel
    exact this hv
  · intro h
    have hv := h (fun _ => 5) f17dA (fun _ => 1) (fun _ => 0) (fun _ => le_rfl) (fun _ => one_ne_zero) (f17dP 0)
      (f17dP_inBox 0 (by norm_num) (by norm_num))
    rw [f17dU_eq, hval] at hv
    have : gradField id (fdBackend .central (fun _ => 5) (fun _ => (1 : ℚ))) (.nat 2) (.nat 1) f17dU (f17dP 0) ≠ some 2 := by
      decide +kernel
    exact this hv

/-- the default mode is not among them any more (F-17d repaired): same witness, corner sample. -/
example : bendingField id (fdBackend .sobel (fun _ => 5) (fun _ => (1 : ℚ))) f17dU (f17dP 0) = some 0 := by
  decide +kernel

example : secondOrderMode none = .fd .sobel := rfl

/-- elasticity_loss has a value in mode='bspline' (after fix 1259250 the accumulator has the shape of the
    derivative tensors): at every output point of the `(n−3)·stride` grid the density is `elasticityPt` of the
    B-spline first derivatives, and the loss of a batch is returned for every reduction, stride, weight table,
    spacing and coefficient grid. -/
theorem C17_elasticity_bspline [DecidableEq K] (stride sz : Fin D → Nat) (wts : Fin D → Nat → Nat → Nat → K)
    (lambd mu : K) (red : Reduction) (items : List ((Fin D → K) × (Fin D → Arr D K))) :
    (∀ (sp : Fin D → K) (u : Fin D → Arr D K) (idx : Idx D),
      elasticityField id (.bspline (bsplineDeriv stride wts sp)) lambd mu u idx
        = some (elasticityPt lambd mu (fun i j => bsplineDeriv stride wts sp [j] (u i) idx))) ∧
    (∃ r, regFinish red false (.batch (boxPoints (elasticityOutSize true stride sz))
        (items.map (fun it => elasticityField id (.bspline (bsplineDeriv stride wts it.1)) lambd mu it.2))) = .ok r) := by
  constructor
  · intro sp u idx
    exact elasticityField_eq id _ lambd mu u idx
  · apply regFinish_ok
    intro f hf idx _
    obtain ⟨it, _, rfl⟩ := List.mem_map.mp hf
    rw [elasticityField_eq]; rfl

example : elasticityOutSize (D := 2) true (fun _ => 2) (fun _ => 5) = fun _ => 4 := by
  funext d; simp [elasticityOutSize, bsplineOutSize]

end Misc
end Deepali
