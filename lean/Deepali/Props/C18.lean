/-
  Props/C18.lean — property C18: images and flow fields survive a write/read round trip in
  every supported format.  Only property theorems and non-vacuity examples live here; helper
  lemmas are in Deepali/Proofs/ImageIO{Meta,Shuffle,Nifti}.lean.

  The theorems cover header grammar, field order, the TransformMatrix layout, the channel-axis
  shuffle, the NIfTI affine with the LPS↔RAS flips, the NIfTI scalar / vector data layout, and
  the world-axes conversion of flow fields.  The byte encoding of voxels (numpy tobytes, zlib,
  nibabel, ITK) is trusted and only exercised by the harness.

  The model follows /repo after the `fix:` commits c9805be, f7684dd (F-18c, F-18b: MetaImage
  reader), 5ccdadc (F-18a: NIfTI writer), 91f545a (F-18d: NIfTI reader); the former
  `…_refuted` / `…_partial` / `…_fixed` triples are replaced by the full-strength statements.

  OBLIGATIONS: C18_meta_header_roundtrip C18_meta_header_lines
    C18_transform_matrix_layout C18_transform_matrix_roundtrip C18_elemtype_table_roundtrip
    C18_axis_shuffle_inverse C18_axis_shuffle_inverse_file C18_axis_shuffle_data C18_file_layout
    C18_lps_ras_involution C18_nifti_geometry_roundtrip C18_nifti_pixdim
    C18_nifti_layout_roundtrip C18_nifti_shape_roundtrip_3d C18_nifti_shape_roundtrip_2d
    C18_flow_world_roundtrip C18_flow_world_roundtrip'
-/
import Deepali.Proofs.ImageIOMeta
import Deepali.Proofs.ImageIOShuffle
import Deepali.Proofs.ImageIONifti
import Deepali.Proofs.Examples

set_option linter.unusedSectionVars false

namespace Deepali
open Deepali.MetaIO Deepali.Nifti Matrix

/-! ### MetaImage header: `parse (serialise h) = some h` -/

/-- Every well-formed header (explicit decidable predicate `Header.WF`: D ≥ 1 spatial dimensions,
    ≥ 1 channel, origin/spacing of length D, direction D×D, compressed size present iff
    compressed) — every D ≥ 1 (in particular 2 and 3), every channel count, element type,
    compression flag, origin, spacing and direction — is recovered exactly by parsing the lines
    the writer emits (any scalar type: no arithmetic is involved). -/
theorem C18_meta_header_roundtrip {α : Type} [NatCast α] (h : Header α) (hWF : h.WF) :
    roundtrip h = .ok h.toRead :=
  roundtrip_ok h hWF

/-- regression instance of F-18b: a 2-D scalar image on a grid rotated by atan(4/3). -/
def c18Witness2D : Header ℚ :=
  { dimSize := [5, 4], channels := 1, elementType := .int16, compressed := false, compressedSize := none, offset := [3 / 2, -9 / 4], spacing := [1 / 2, 5 / 4], direction := [3 / 5, -4 / 5, 4 / 5, 3 / 5] }

/-- regression instance of F-18c: a 3-D two-channel image. -/
def c18Witness3D2C : Header ℚ :=
  { dimSize := [5, 4, 3], channels := 2, elementType := .float32, compressed := true, compressedSize := some 84, offset := [3 / 2, -9 / 4, 1 / 10], spacing := [1 / 2, 5 / 4, 3 / 10], direction := [0, -1, 0, 1, 0, 0, 0, 0, 1] }

/-- The lines deepali writes, in this order (`headerLines`): ObjectType, NDims, CompressedData,
    [CompressedDataSize], BinaryData, BinaryDataByteOrderMSB, Offset, TransformMatrix,
    ElementSpacing, DimSize, ElementNumberOfChannels, ElementType, ElementDataFile. -/
theorem C18_meta_header_lines {α : Type} [NatCast α] (h : Header α) (hc : 1 ≤ h.channels) :
    ∃ s, h.elementType.metName = some s ∧ serialise h = .ok (headerLines h s) := by
  obtain ⟨s, hs, _⟩ := ElemType.metName_isSome h.elementType
  exact ⟨s, hs, serialise_eq h hc s hs⟩

/-- `TransformMatrix` holds the direction matrix column by column: token `k = i·D + j` is
    `direction[j][i]` (what ITK's MetaImageIO expects). -/
theorem C18_transform_matrix_layout {α : Type} [NatCast α] (n : Nat) (xs : List α) (i j : Nat) (hi : i < n)
    (hj : j < n) : (transposeFlat n xs)[i * n + j]? = some (xs.getD (j * n + i) ((0 : Nat) : α)) := by
  have hk : i * n + j < n * n := by
    calc i * n + j < i * n + n := by omega
      _ = (i + 1) * n := by ring
      _ ≤ n * n := Nat.mul_le_mul_right n hi
  have h1 : (i * n + j) % n = j := by rw [Nat.mul_comm, Nat.mul_add_mod]; exact Nat.mod_eq_of_lt hj
  have h2 : (i * n + j) / n = i := by
    rw [Nat.mul_comm, Nat.mul_add_div (by omega), Nat.div_eq_of_lt hj, Nat.add_zero]
  simp only [transposeFlat, List.getElem?_map, List.getElem?_range hk, Option.map_some, h1, h2]

/-- the reader's `reshape(D, D).transpose()` undoes the writer's `ravel(transpose(·))`. -/
theorem C18_transform_matrix_roundtrip {α : Type} [NatCast α] (n : Nat) (xs : List α) (h : xs.length = n * n) :
    transposeFlat n (transposeFlat n xs) = xs := transposeFlat_involutive n xs h

/-- the `ElementType` table is a bijection between the ten numpy dtypes and their `MET_*` names. -/
theorem C18_elemtype_table_roundtrip (e : ElemType) :
    ∃ s, e.metName = some s ∧ ElemType.ofMetName s = some e := ElemType.metName_isSome e

/-! ### channel-axis shuffle (`write_meta_image`/`image_from_tensor` vs `read_meta_image`/`tensor_from_image`) -/

/-- The read shuffle undoes the write shuffle for every shape `(C, n₁, …, n_k)` (`unit = 1`,
    `a = C`) and every multi-index `(c, i₁, …, i_k)` with `c < C` (`unit = 0`), any number of
    spatial dimensions, any `C ≥ 1`. -/
theorem C18_axis_shuffle_inverse (unit c a : Nat) (rest : List Nat) (hc : 1 ≤ c) (h1 : c = 1 → a = unit) :
    toTensorOrder unit c (toFileOrder unit c (a :: rest)) = a :: rest :=
  toTensorOrder_toFileOrder unit c a rest hc h1

/-- … and the write shuffle undoes the read shuffle for every file-order shape / index
    (files written by other software, read and written again). -/
theorem C18_axis_shuffle_inverse_file (unit c : Nat) (l : List Nat) (hc : 1 ≤ c) :
    toFileOrder unit c (toTensorOrder unit c l) = l :=
  toFileOrder_toTensorOrder unit c l hc

/-- Voxel values: if the file array is the written tensor (`F[j] = T[toTensorOrder j]`, which is
    what `unsqueeze/transpose/squeeze` compute) and the tensor read back is
    `R[i] = F[toFileOrder i]`, then `R = T` at every index `(c, i₁, …)`, `c < C`. -/
theorem C18_axis_shuffle_data {β : Type} (T : List Nat → β) (C k : Nat) (idx : List Nat) (hC : 1 ≤ C) (hk : k < C) :
    (fun i => (fun j => T (toTensorOrder 0 C j)) (toFileOrder 0 C i)) (k :: idx) = T (k :: idx) := by
  simp only
  rw [toTensorOrder_toFileOrder 0 C k idx hC (by omega)]

/-- Position in the file: for several channels the components of one voxel are adjacent
    (pixel-interleaved, as ITK stores vector images): the row-major offset of tensor element
    `(k, idx)` in the file array of shape `(…, X, C)` is `offset(idx) · C + k`; for one
    channel it is `offset(idx)`. -/
theorem C18_file_layout (C k : Nat) (shape idx : List Nat) (hl : shape.length = idx.length) :
    (1 < C → ravelIndex (toFileOrder 1 C (C :: shape)) (toFileOrder 0 C (k :: idx))
              = ravelIndex shape idx * C + k) ∧
    (C = 1 → ravelIndex (toFileOrder 1 C (C :: shape)) (toFileOrder 0 C (k :: idx)) = ravelIndex shape idx) := by
  constructor
  · intro h
    rw [toFileOrder_multi 1 C C shape h, toFileOrder_multi 0 C k idx h, ravelIndex_concat shape idx C k hl]
  · intro h; subst h
    rw [toFileOrder_single, toFileOrder_single]

/-! ### NIfTI -/

/-- the LPS ↔ RAS change of world axes (negate the first two rows / entries) is an involution. -/
theorem C18_lps_ras_involution {K : Type} [Field K] {n m : Nat} (A : Fin n → Fin m → K) (x : Fin n → K) :
    flipRows (flipRows A) = A ∧ flipVec (flipVec x) = x :=
  ⟨flipRows_flipRows A, flipVec_flipVec x⟩

section
variable {K : Type} [Field K] [LinearOrder K] [IsStrictOrderedRing K] [FloorRing K] {d : Nat}

/-- nibabel's voxel sizes (column norms of the affine) are the grid spacing. -/
theorem C18_nifti_pixdim {g : Grid d K} (h : g.Valid) (j : Fin d) (p : K) (hp : 0 < p) (hs : 0 < g.spacing j)
    (hnorm : p * p = ∑ i, g.affine i j * g.affine i j) : p = g.spacing j :=
  pixdim_eq_spacing h j p hp hs hnorm

/-- Geometry through the 4×4 affine: for a 1-, 2- or 3-D grid with orthonormal direction and
    non-zero spacing, reading origin and direction back from the affine the writer builds — with
    `pixdim = spacing` (see `C18_nifti_pixdim`) — returns the grid's origin and direction,
    provided no entry is a non-zero value below the reader's clamp `2⁻⁵²`. -/
theorem C18_nifti_geometry_roundtrip {g : Grid d K} (h : g.Valid) (hd : d ≤ 3)
    (ho : ∀ i, NotTiny (g.origin i)) (hR : ∀ i j, NotTiny (g.direction i j)) :
    readOrigin d hd (writeAffine g) = g.origin ∧
    readDirection d hd (writeAffine g) g.spacing = g.direction := by
  constructor
  · funext i
    unfold readOrigin flipVec
    simp only [writeAffine_col3 g hd]
    rw [show (if i.val < 2 then -(if i.val < 2 then -g.origin i else g.origin i)
          else (if i.val < 2 then -g.origin i else g.origin i)) = g.origin i by split <;> simp]
    exact clampSmall_of_notTiny _ (ho i)
  · funext i j
    unfold readDirection flipRows
    simp only [writeAffine_block g hd]
    have hs := h.spacing_ne j
    rw [show (if i.val < 2 then -((if i.val < 2 then -(g.direction i j * g.spacing j)
            else g.direction i j * g.spacing j) / g.spacing j)
          else (if i.val < 2 then -(g.direction i j * g.spacing j) else g.direction i j * g.spacing j) / g.spacing j)
          = g.direction i j by split <;> field_simp]
    exact clampSmall_of_notTiny _ (hR i j)

end

/-! ### NIfTI data layout: scalar `X×Y[×Z]`, vector `X×Y[×Z]×1…×C` with intent VECTOR -/

/-- The reader's squeeze/reverse/channel-axis step undoes the writer's layout for shapes
    (`unit = 1`, `a = C`) and multi-indices (`unit = 0`, `a < C`), 3-D and 2-D, one or several
    channels (`keepFrom` is 4 for the vector intent the writer sets when C > 1, 5 otherwise). -/
theorem C18_nifti_layout_roundtrip (unit c a x y z : Nat) (hc : 1 ≤ c) (h1 : c = 1 → a = unit) :
    fromNiftiOrder unit 3 (keepFrom (writeIntent (toNiftiOrder unit c 3 [a, z, y, x]))) 3
        (toNiftiOrder unit c 3 [a, z, y, x]) = [a, z, y, x] ∧
    fromNiftiOrder unit 2 (keepFrom (writeIntent (toNiftiOrder unit c 2 [a, y, x]))) 2
        (toNiftiOrder unit c 2 [a, y, x]) = [a, y, x] := by
  by_cases h : c = 1
  · subst h; rw [h1 rfl]
    simp [toNiftiOrder, fromNiftiOrder, writeIntent, keepFrom, vectorIntent]
  · simp [toNiftiOrder, fromNiftiOrder, writeIntent, keepFrom, vectorIntent, h]

/-- 3-D: from the header nibabel stores for the written array (`dim`, intent) the reader derives a
    3-D grid and the tensor shape `(C, Z, Y, X)` — scalar and vector (C > 1) images; NIfTI cannot
    tell a trailing axis of size 1 from a missing one, hence `2 ≤ z`. -/
theorem C18_nifti_shape_roundtrip_3d (c x y z : Nat) (hc : 1 ≤ c) (hz : 2 ≤ z) :
    let shape := toNiftiOrder 1 c 3 [c, z, y, x]
    readShape (headerDim shape) (writeIntent shape) = .ok [c, z, y, x] ∧
    gridDim (headerDim shape) (writeIntent shape) = 3 := by
  have hz1 : 1 < z := by omega
  by_cases h : c = 1
  · subst h
    simp [toNiftiOrder, headerDim, writeIntent, readShape, realDim, realDim.go, gridDim, vectorIntent, keepFrom,
      fromNiftiOrder, prod, bind, Except.bind, pure, Except.pure]
  · simp [toNiftiOrder, headerDim, writeIntent, readShape, realDim, gridDim, vectorIntent, keepFrom,
      fromNiftiOrder, prod, bind, Except.bind, pure, Except.pure, h, hz1]

/-- 2-D: the reader derives a 2-D grid and the tensor shape `(C, Y, X)` (`2 ≤ y`, as above). -/
theorem C18_nifti_shape_roundtrip_2d (c x y : Nat) (hc : 1 ≤ c) (hy : 2 ≤ y) :
    let shape := toNiftiOrder 1 c 2 [c, y, x]
    readShape (headerDim shape) (writeIntent shape) = .ok [c, y, x] ∧
    gridDim (headerDim shape) (writeIntent shape) = 2 := by
  have hy1 : 1 < y := by omega
  by_cases h : c = 1
  · subst h
    simp [toNiftiOrder, headerDim, writeIntent, readShape, realDim, realDim.go, gridDim, vectorIntent, keepFrom,
      fromNiftiOrder, prod, bind, Except.bind, pure, Except.pure]
  · simp [toNiftiOrder, headerDim, writeIntent, readShape, realDim, gridDim, vectorIntent, keepFrom,
      fromNiftiOrder, prod, bind, Except.bind, pure, Except.pure, h, hy1]

section
variable {K : Type} [Field K] [LinearOrder K] [IsStrictOrderedRing K] [FloorRing K] {d : Nat}

/-! ### flow fields: stored w.r.t. world axes, returned in the original representation -/

/-- `FlowField.write` converts the vectors from the field's axes `a` to WORLD
    (`Grid.transform_vectors`), `FlowField.read(...).axes(a)` converts back: the identity, for all
    four axes, any valid grid. -/
theorem C18_flow_world_roundtrip {g : Grid d K} (h : g.Valid) (a : Axes) (ha : g.CornersOK a) (v : Vec d K) :
    g.transformVectors .world a (g.transformVectors a .world v) = v := by
  have hw : g.CornersOK .world := fun hc => by cases hc
  rw [transformVectors_eq h a .world ha hw, transformVectors_eq h .world a hw ha,
    toGridLin_fromGridLin h .world hw, fromGridLin_toGridLin h a ha]

/-- … and a world-space field found in a file, converted to axes `a` and written again, is unchanged. -/
theorem C18_flow_world_roundtrip' {g : Grid d K} (h : g.Valid) (a : Axes) (ha : g.CornersOK a) (w : Vec d K) :
    g.transformVectors a .world (g.transformVectors .world a w) = w := by
  have hw : g.CornersOK .world := fun hc => by cases hc
  rw [transformVectors_eq h .world a hw ha, transformVectors_eq h a .world ha hw,
    toGridLin_fromGridLin h a ha, fromGridLin_toGridLin h .world hw]

end

/-! ### non-vacuity / regression instances -/

/-- the former witnesses are well-formed headers and round-trip now; a well-formed 2-D
    two-channel compressed header exists. -/
example : c18Witness2D.WF ∧ c18Witness3D2C.WF := ⟨by decide, by decide⟩
example : ({ c18Witness2D with channels := 2, compressed := true, compressedSize := some 63 } : Header ℚ).WF := by
  decide
example : roundtrip c18Witness2D = .ok c18Witness2D.toRead := C18_meta_header_roundtrip _ (by decide)
example : roundtrip c18Witness3D2C = .ok c18Witness3D2C.toRead := C18_meta_header_roundtrip _ (by decide)
/-- the ITK-style vector header of the former F-18d witness (`dim = 5, 5,4,3,1,2`, intent 1007) is what
    the writer produces for a (2, 3, 4, 5) tensor, and it reads back. -/
example : headerDim (toNiftiOrder 1 2 3 [2, 3, 4, 5]) = [5, 5, 4, 3, 1, 2, 1, 1] ∧
    writeIntent (toNiftiOrder 1 2 3 [2, 3, 4, 5]) = 1007 ∧
    readShape [5, 5, 4, 3, 1, 2, 1, 1] 1007 = .ok [2, 3, 4, 5] ∧
    readShape [5, 5, 4, 1, 1, 2, 1, 1] 1007 = .ok [2, 4, 5] ∧ gridDim [5, 5, 4, 1, 1, 2, 1, 1] 1007 = 2 := by
  decide +kernel
/-- a valid rotated anisotropic grid with admissible cube-corner axes exists (Proofs/Examples). -/
example : exampleGrid.Valid ∧ ∀ a, exampleGrid.CornersOK a := ⟨exampleGrid_valid, exampleGrid_cornersOK⟩
/-- `NotTiny` holds for ordinary values. -/
example : NotTiny (0 : ℚ) ∧ NotTiny (-1 : ℚ) ∧ NotTiny (3 / 5 : ℚ) := by
  refine ⟨Or.inl rfl, Or.inr ?_, Or.inr ?_⟩ <;> norm_num [abs_of_neg, abs_of_pos]

end Deepali
