/-
  Props/C18.lean — property C18: images and flow fields survive a write/read round trip in
  every supported format.  Only property theorems and non-vacuity examples live here; helper
  lemmas are in Deepali/Proofs/ImageIO{Meta,Shuffle,Nifti}.lean.

  The theorems cover header grammar, field order, the TransformMatrix layout, the channel-axis
  shuffle, the NIfTI affine with the LPS↔RAS flips, and the world-axes conversion of flow fields.
  The byte encoding of voxels (numpy tobytes, zlib, nibabel, ITK) is trusted and only exercised
  by the harness.

  The reader/writer AS THEY STAND violate three clauses (F-18a/b/c, plus F-18d found here); for
  these the full statement is a `def …_Statement`, refuted with a concrete witness, the part that
  holds is `…_partial`, and `…_fixed` is the full statement for the reader/writer with the
  repairs of FINDINGS_C18.md.

  OBLIGATIONS: C18_meta_header_roundtrip_partial C18_meta_header_roundtrip_refuted
    C18_meta_header_multichannel_refuted C18_meta_header_roundtrip_fixed C18_meta_header_lines
    C18_transform_matrix_layout C18_transform_matrix_roundtrip C18_elemtype_table_roundtrip
    C18_axis_shuffle_inverse C18_axis_shuffle_inverse_file C18_axis_shuffle_data C18_file_layout
    C18_lps_ras_involution C18_nifti_write_refuted C18_nifti_write_always_raises
    C18_nifti_vector_intent_refuted C18_nifti_geometry_roundtrip_fixed C18_nifti_pixdim
    C18_flow_world_roundtrip C18_flow_world_roundtrip'
-/
import Deepali.Proofs.ImageIOMeta
import Deepali.Proofs.ImageIOShuffle
import Deepali.Proofs.ImageIONifti
import Deepali.Proofs.Examples

set_option linter.unusedSectionVars false

namespace Deepali
open Deepali.MetaIO Deepali.Nifti Matrix

/-! ### MetaImage header: `parse (serialise h) = some h` -/

/-- The header clause of C18 for a reader `fix`: every well-formed header (explicit decidable
    predicate `Header.WF`: D ≥ 1 spatial dimensions, ≥ 1 channel, origin/spacing of length D,
    direction D×D, compressed size present iff compressed), D ∈ {2, 3}, any channel count and
    element type, is recovered exactly by parsing the lines the writer emits. -/
def C18_meta_header_roundtrip_Statement (fix : Fix) : Prop :=
  ∀ h : Header ℚ, h.WF → (h.ndims = 2 ∨ h.ndims = 3) → roundtrip fix h = .ok h.toRead

/-- witness of F-18b: a 2-D scalar image on a grid rotated by atan(4/3). -/
def c18Witness2D : Header ℚ :=
  { dimSize := [5, 4], channels := 1, elementType := .int16, compressed := false, compressedSize := none, offset := [3 / 2, -9 / 4], spacing := [1 / 2, 5 / 4], direction := [3 / 5, -4 / 5, 4 / 5, 3 / 5] }

/-- witness of F-18c: a 3-D two-channel image. -/
def c18Witness3D2C : Header ℚ :=
  { dimSize := [5, 4, 3], channels := 2, elementType := .float32, compressed := true, compressedSize := some 84, offset := [3 / 2, -9 / 4, 1 / 10], spacing := [1 / 2, 5 / 4, 3 / 10], direction := [0, -1, 0, 1, 0, 0, 0, 0, 1] }

/-- F-18b: the reader as it stands (`reshape(3, 3)`) rejects the 2-D header deepali writes. -/
theorem C18_meta_header_roundtrip_refuted : ¬ C18_meta_header_roundtrip_Statement .none := by
  intro hS
  have h := hS c18Witness2D (by decide) (Or.inl rfl)
  have e : roundtrip .none c18Witness2D = .error .value := by decide +kernel
  rw [e] at h
  cases h

/-- F-18c: the reader as it stands ends in a `TypeError` for a well-formed 3-D header with
    two channels. -/
theorem C18_meta_header_multichannel_refuted :
    c18Witness3D2C.WF ∧ c18Witness3D2C.ndims = 3 ∧ roundtrip .none c18Witness3D2C = .error .type := by
  refine ⟨by decide, rfl, by decide +kernel⟩

/-- What holds for the reader as it stands: every well-formed 3-D single-channel header, any
    size, element type, compression flag, origin, spacing and direction, is recovered exactly
    (any scalar type: no arithmetic is involved).
    Missing w.r.t. the statement: D = 2 (F-18b) and channels > 1 (F-18c). -/
theorem C18_meta_header_roundtrip_partial {α : Type} [NatCast α] (h : Header α) (hWF : h.WF)
    (h3 : h.ndims = 3) (h1 : h.channels = 1) : roundtrip .none h = .ok h.toRead :=
  roundtrip_ok .none h hWF (by simp [Fix.matrixDim, h3]) (fun _ => h1)

/-- With the two one-line repairs of FINDINGS_C18.md the full statement holds — for every
    D ≥ 1, every channel count. -/
theorem C18_meta_header_roundtrip_fixed {α : Type} [NatCast α] (h : Header α) (hWF : h.WF) :
    roundtrip .proposed h = .ok h.toRead :=
  roundtrip_ok .proposed h hWF rfl (fun e => by cases e)

/-- The lines deepali writes, in this order (`headerLines`): ObjectType, NDims, CompressedData,
    [CompressedDataSize], BinaryData, BinaryDataByteOrderMSB, Offset, TransformMatrix,
    ElementSpacing, DimSize, ElementNumberOfChannels, ElementType, ElementDataFile. -/
theorem C18_meta_header_lines {α : Type} [NatCast α] (h : Header α) (hc : 1 ≤ h.channels) :
    ∃ s, h.elementType.metName = some s ∧ serialise h = .ok (headerLines h s) := by
  obtain ⟨s, hs, _⟩ := ElemType.metName_isSome h.elementType
  exact ⟨s, hs, serialise_eq h hc s hs⟩

/-- `TransformMatrix` holds the direction matrix column by column: token `k = i·D + j` is
    `direction[j][i]` (what ITK's MetaImageIO expects). -/
theorem C18_transform_matrix_layout {α : Type} [NatCast α] (n : Nat) (xs : List α) (i j : Nat) (hi : i < n)
    (hj : j < n) : (transposeFlat n xs)[i * n + j]? = some (xs.getD (j * n + i) ((0 : Nat) : α)) := by
  have hk : i * n + j < n * n := by
    calc i * n + j < i * n + n := by omega
      _ = (i + 1) * n := by ring
      _ ≤ n * n := Nat.mul_le_mul_right n hi
  have h1 : (i * n + j) % n = j := by rw [Nat.mul_comm, Nat.mul_add_mod]; exact Nat.mod_eq_of_lt hj
  have h2 : (i * n + j) / n = i := by
    rw [Nat.mul_comm, Nat.mul_add_div (by omega), Nat.div_eq_of_lt hj, Nat.add_zero]
  simp only [transposeFlat, List.getElem?_map, List.getElem?_range hk, Option.map_some, h1, h2]

/-- the reader's `reshape(D, D).transpose()` undoes the writer's `ravel(transpose(·))`. -/
theorem C18_transform_matrix_roundtrip {α : Type} [NatCast α] (n : Nat) (xs : List α) (h : xs.length = n * n) :
    transposeFlat n (transposeFlat n xs) = xs := transposeFlat_involutive n xs h

/-- the `ElementType` table is a bijection between the ten numpy dtypes and their `MET_*` names. -/
theorem C18_elemtype_table_roundtrip (e : ElemType) :
    ∃ s, e.metName = some s ∧ ElemType.ofMetName s = some e := ElemType.metName_isSome e

/-! ### channel-axis shuffle (`write_meta_image`/`image_from_tensor` vs `read_meta_image`/`tensor_from_image`) -/

/-- The read shuffle undoes the write shuffle for every shape `(C, n₁, …, n_k)` (`unit = 1`,
    `a = C`) and every multi-index `(c, i₁, …, i_k)` with `c < C` (`unit = 0`), any number of
    spatial dimensions, any `C ≥ 1`. -/
theorem C18_axis_shuffle_inverse (unit c a : Nat) (rest : List Nat) (hc : 1 ≤ c) (h1 : c = 1 → a = unit) :
    toTensorOrder unit c (toFileOrder unit c (a :: rest)) = a :: rest :=
  toTensorOrder_toFileOrder unit c a rest hc h1

/-- … and the write shuffle undoes the read shuffle for every file-order shape / index
    (files written by other software, read and written again). -/
theorem C18_axis_shuffle_inverse_file (unit c : Nat) (l : List Nat) (hc : 1 ≤ c) :
    toFileOrder unit c (toTensorOrder unit c l) = l :=
  toFileOrder_toTensorOrder unit c l hc

/-- Voxel values: if the file array is the written tensor (`F[j] = T[toTensorOrder j]`, which is
    what `unsqueeze/transpose/squeeze` compute) and the tensor read back is
    `R[i] = F[toFileOrder i]`, then `R = T` at every index `(c, i₁, …)`, `c < C`. -/
theorem C18_axis_shuffle_data {β : Type} (T : List Nat → β) (C k : Nat) (idx : List Nat) (hC : 1 ≤ C) (hk : k < C) :
    (fun i => (fun j => T (toTensorOrder 0 C j)) (toFileOrder 0 C i)) (k :: idx) = T (k :: idx) := by
  simp only
  rw [toTensorOrder_toFileOrder 0 C k idx hC (by omega)]

/-- Position in the file: for several channels the components of one voxel are adjacent
    (pixel-interleaved, as ITK stores vector images): the row-major offset of tensor element
    `(k, idx)` in the file array of shape `(…, X, C)` is `offset(idx) · C + k`; for one
    channel it is `offset(idx)`. -/
theorem C18_file_layout (C k : Nat) (shape idx : List Nat) (hl : shape.length = idx.length) :
    (1 < C → ravelIndex (toFileOrder 1 C (C :: shape)) (toFileOrder 0 C (k :: idx))
              = ravelIndex shape idx * C + k) ∧
    (C = 1 → ravelIndex (toFileOrder 1 C (C :: shape)) (toFileOrder 0 C (k :: idx)) = ravelIndex shape idx) := by
  constructor
  · intro h
    rw [toFileOrder_multi 1 C C shape h, toFileOrder_multi 0 C k idx h, ravelIndex_concat shape idx C k hl]
  · intro h; subst h
    rw [toFileOrder_single, toFileOrder_single]

/-! ### NIfTI -/

/-- the LPS ↔ RAS change of world axes (negate the first two rows / entries) is an involution. -/
theorem C18_lps_ras_involution {K : Type} [Field K] {n m : Nat} (A : Fin n → Fin m → K) (x : Fin n → K) :
    flipRows (flipRows A) = A ∧ flipVec (flipVec x) = x :=
  ⟨flipRows_flipRows A, flipVec_flipVec x⟩

section
variable {K : Type} [Field K] [LinearOrder K] [IsStrictOrderedRing K] [FloorRing K] {d : Nat}

/-- The NIfTI write clause of C18: for 2-D and 3-D grids the writer hands nibabel an affine it accepts. -/
def C18_nifti_write_Statement : Prop :=
  ∀ (d : Nat) (g : Grid d ℚ), (d = 2 ∨ d = 3) → ∃ A, writeAffine g = .ok A

/-- F-18a: `write_nifti_image` passes the D×D matrix `grid.affine()`; nibabel rejects it —
    for EVERY 2-D or 3-D grid. -/
theorem C18_nifti_write_always_raises (g : Grid d K) (hd : d = 2 ∨ d = 3) : writeAffine g = .error .value :=
  writeAffine_error g (by omega)

theorem C18_nifti_write_refuted : ¬ C18_nifti_write_Statement := by
  intro hS
  obtain ⟨A, hA⟩ := hS 2 exampleGrid (Or.inl rfl)
  rw [C18_nifti_write_always_raises exampleGrid (Or.inl rfl)] at hA
  cases hA

/-- F-18d: a 5×4×3 image with 2 components as ITK writes it (`dim = 5, 5,4,3,1,2`, intent 1007):
    the reader as it stands keeps `shape[5:]` and cannot reshape; with the repair (`shape[4:]`,
    D from `realdim`) it returns `(2, 3, 4, 5)`, and `(2, 4, 5)` on a 2-D grid for the 2-D file. -/
theorem C18_nifti_vector_intent_refuted :
    readShape false [5, 5, 4, 3, 1, 2, 1, 1] 1007 = .error .value ∧
    readShape true [5, 5, 4, 3, 1, 2, 1, 1] 1007 = .ok [2, 3, 4, 5] ∧
    readShape false [5, 5, 4, 1, 1, 2, 1, 1] 1007 = .error .value ∧
    readShape true [5, 5, 4, 1, 1, 2, 1, 1] 1007 = .ok [2, 4, 5] ∧
    gridDim true [5, 5, 4, 1, 1, 2, 1, 1] 1007 = 2 := by
  decide +kernel

/-- nibabel's voxel sizes (column norms of the affine) are the grid spacing. -/
theorem C18_nifti_pixdim {g : Grid d K} (h : g.Valid) (j : Fin d) (p : K) (hp : 0 < p) (hs : 0 < g.spacing j)
    (hnorm : p * p = ∑ i, g.affine i j * g.affine i j) : p = g.spacing j :=
  pixdim_eq_spacing h j p hp hs hnorm

/-- Geometry through the 4×4 affine (repaired writer, reader as it stands): for a 2-D or 3-D
    grid with orthonormal direction and non-zero spacing, reading origin and direction back from
    the affine — with `pixdim = spacing` (see `C18_nifti_pixdim`) — returns the grid's origin and
    direction, provided no entry is a non-zero value below the reader's clamp `2⁻⁵²`. -/
theorem C18_nifti_geometry_roundtrip_fixed {g : Grid d K} (h : g.Valid) (hd : d ≤ 3)
    (ho : ∀ i, NotTiny (g.origin i)) (hR : ∀ i j, NotTiny (g.direction i j)) :
    readOrigin d hd (writeAffineFixed g) = g.origin ∧
    readDirection d hd (writeAffineFixed g) g.spacing = g.direction := by
  constructor
  · funext i
    unfold readOrigin flipVec
    simp only [writeAffineFixed_col3 g hd]
    rw [show (if i.val < 2 then -(if i.val < 2 then -g.origin i else g.origin i)
          else (if i.val < 2 then -g.origin i else g.origin i)) = g.origin i by split <;> simp]
    exact clampSmall_of_notTiny _ (ho i)
  · funext i j
    unfold readDirection flipRows
    simp only [writeAffineFixed_block g hd]
    have hs := h.spacing_ne j
    rw [show (if i.val < 2 then -((if i.val < 2 then -(g.direction i j * g.spacing j)
            else g.direction i j * g.spacing j) / g.spacing j)
          else (if i.val < 2 then -(g.direction i j * g.spacing j) else g.direction i j * g.spacing j) / g.spacing j)
          = g.direction i j by split <;> field_simp]
    exact clampSmall_of_notTiny _ (hR i j)

/-! ### flow fields: stored w.r.t. world axes, returned in the original representation -/

/-- `FlowField.write` converts the vectors from the field's axes `a` to WORLD
    (`Grid.transform_vectors`), `FlowField.read(...).axes(a)` converts back: the identity, for all
    four axes, any valid grid. -/
theorem C18_flow_world_roundtrip {g : Grid d K} (h : g.Valid) (a : Axes) (ha : g.CornersOK a) (v : Vec d K) :
    g.transformVectors .world a (g.transformVectors a .world v) = v := by
  have hw : g.CornersOK .world := fun hc => by cases hc
  rw [transformVectors_eq h a .world ha hw, transformVectors_eq h .world a hw ha,
    toGridLin_fromGridLin h .world hw, fromGridLin_toGridLin h a ha]

/-- … and a world-space field found in a file, converted to axes `a` and written again, is unchanged. -/
theorem C18_flow_world_roundtrip' {g : Grid d K} (h : g.Valid) (a : Axes) (ha : g.CornersOK a) (w : Vec d K) :
    g.transformVectors a .world (g.transformVectors .world a w) = w := by
  have hw : g.CornersOK .world := fun hc => by cases hc
  rw [transformVectors_eq h .world a hw ha, transformVectors_eq h a .world ha hw,
    toGridLin_fromGridLin h a ha, fromGridLin_toGridLin h .world hw]

end

/-! ### non-vacuity -/

/-- the two witnesses are well-formed headers; a well-formed 2-D two-channel compressed header exists. -/
example : c18Witness2D.WF ∧ c18Witness3D2C.WF := ⟨by decide, by decide⟩
example : ({ c18Witness2D with channels := 2, compressed := true, compressedSize := some 63 } : Header ℚ).WF := by
  decide
/-- the repaired reader does recover the 2-D witness (and the 3-D two-channel one). -/
example : roundtrip .proposed c18Witness2D = .ok c18Witness2D.toRead :=
  C18_meta_header_roundtrip_fixed _ (by decide)
example : roundtrip .proposed c18Witness3D2C = .ok c18Witness3D2C.toRead :=
  C18_meta_header_roundtrip_fixed _ (by decide)
/-- a valid rotated anisotropic grid with admissible cube-corner axes exists (Proofs/Examples). -/
example : exampleGrid.Valid ∧ ∀ a, exampleGrid.CornersOK a := ⟨exampleGrid_valid, exampleGrid_cornersOK⟩
/-- `NotTiny` holds for ordinary values. -/
example : NotTiny (0 : ℚ) ∧ NotTiny (-1 : ℚ) ∧ NotTiny (3 / 5 : ℚ) := by
  refine ⟨Or.inl rfl, Or.inr ?_, Or.inr ?_⟩ <;> norm_num [abs_of_neg, abs_of_pos]

end Deepali
