/-
  Props/C19.lean — property C19: batches keep one correctly aligned grid per image under tensor operations.
  Model: Deepali/Model/Dispatch.lean (`torchSem` = trusted torch semantics, the rest = the dispatcher as written).
  `AlignedS/AlignedV`, `goodOp`, `OtherOK`, `CountShapeOK`, `WFS` are defined in Deepali/Proofs/Dispatch*.lean.

  History: the defects behind the former C19_split_sections_refuted, C19_split_with_sizes_refuted,
  C19_bool_mask_refuted, C19_ellipsis_refuted, C19_narrow_method_refuted, C19_flow_*_refuted, C19_demote_flow_refuted,
  C19_narrow_negdim_refuted, C19_copy_flow_refuted, C19_from_images_axes_refuted and C19_append_axes_refuted were
  repaired in /repo (commits 31c6369, a040c96, e158d15, e37fd36, 018b42a, 5463a8b, d25ad21); the model follows the
  repaired code, these operation classes are now part of `goodOp` / `C19_demote` / `C19_copy_pickle`, and their old
  witnesses are kept as positive instances (`C19_repaired_witnesses_aligned`, `C19_flow_batch_size_demoted`).

  OBLIGATIONS: C19_aligned_partial C19_aligned_refuted C19_demote C19_demote_image C19_demote_plain
    C19_flow_batch_size_demoted C19_repaired_witnesses_aligned C19_copy_pickle
    C19_from_images_axes C19_append_axes_mismatch_raises
    C19_flip_refuted C19_roll_refuted C19_index_select_refuted C19_permute_refuted
-/
import Deepali.Proofs.DispatchCopy

set_option linter.unusedSectionVars false

namespace Deepali
open Dispatch

/-- FULL STATEMENT (kept visible; refuted below for the code as it stands): every program over the whole operation
    vocabulary keeps every typed result aligned — one grid per entry, grid shape = spatial shape, entry `i` carries
    the grid and the axes of the input item whose data it holds. `a0` = the axes used by the flow inputs. -/
def C19_aligned_Statement : Prop :=
  ∀ (a0 : Nat) (other : Option SVal) (prog : List TOp) (v : Val),
    OtherOK a0 other → AlignedV a0 v → AlignedV a0 (runProg other prog v)

/-- Proved part: programs of ANY length built from the operation classes of `goodOp` —
    elementwise / casts / clone / detach / in-place elementwise; copy / deepcopy / pickle; every single index form
    `b[int]`, `b[slice]`, `b[list | index tensor]`, `b[bool mask]`, `b[...]`, and index tuples without ellipsis;
    iteration and picking a tuple member; `cat` along dim 0 (dim omitted, positional 0, keyword 0) with itself or another
    aligned batch; `split(int)`, `split([sections])`, `split_with_sizes`, `tensor_split(indices)` along dim 0; `chunk`,
    `unbind`; method `narrow` (any dim incl. negative, non-negative start); `append` of another aligned batch; and,
    along non-batch dims given as positive
    literals, `flip`, `roll`, `narrow` (function), `select`, `index_select`, reductions; `interpolate`; pooling —
    keep every result aligned, for Image, ImageBatch, FlowField and FlowFields alike, starting from any aligned value
    (an exception yields nothing, I-1; plain results claim nothing).
    Missing (see the `_refuted` theorems): flip/roll/index_select along dim 0, dim-0 transposition. `from_images`:
    axes clause proved separately (`C19_from_images_axes`), alignment by witness + correspondence (an image whose channels
    all hold no data has no provenance to compare). Covered by `C19_demote` (count and
    shapes) + correspondence + oracle only: negative dim literals, stack, tensor_split(int), expand/repeat/reshape/
    squeeze/unsqueeze, dim-0 reductions, permute/transpose of other dims, padding, index tuples with an ellipsis, collate. -/
theorem C19_aligned_partial (a0 : Nat) (other : Option SVal) (prog : List TOp) (v : Val)
    (hother : OtherOK a0 other) (hgood : ∀ op ∈ prog, goodOp op = true) (hv : AlignedV a0 v) :
    AlignedV a0 (runProg other prog v) :=
  alignedV_runProg a0 other prog v hother hgood hv

/-- non-vacuity: a 3-item batch with distinct grids is aligned, so is a second batch, and a 6-step program of good
    operations (cat with the other batch, slice, list index, split, pick, int index) runs to a typed, aligned Image. -/
example : AlignedV 1 (.one (mkInput true 3 2 [4, 5] 0 1)) ∧ OtherOK 1 (some (mkInput true 2 2 [4, 5] 10 1)) := by
  refine ⟨by decide, ?_⟩
  intro o ho
  cases ho
  exact ⟨⟨_, _, _, _, rfl⟩, by decide⟩

example :
    let prog : List TOp := [.cat [.cur, .other] .dflt, .getitem (.single (.slice (some 1) none none)),
      .getitem (.single (.list [3, 0, 1])), .ew, .flip [3], .pool 2 1 1, .narrowM 0 0 3,
      .getitem (.single (.mask [true, true, false])), .splitL [1, 1] .dflt, .pick 0, .getitem (.single (.int 0))]
    (∀ op ∈ prog, goodOp op = true) ∧
      runProg (some (mkInput false 2 2 [4, 5] 10 0)) prog (.one (mkInput false 3 2 [4, 5] 0 0)) =
        .one (.image false ⟨[2, 4, 5], [.item 11, .item 11]⟩ ⟨11, [4, 5], []⟩ 0) := by
  decide

/-- the full statement is false for the code as it stands (witness: `flip(0)` on two items) -/
theorem C19_aligned_refuted : ¬ C19_aligned_Statement := by
  intro h
  have := h 0 none [.flip [0]] (.one (mkInput false 2 1 [2, 2] 0 0)) (by intro o ho; cases ho) (by decide)
  revert this
  decide

/-! ### demotion: mismatching results are plain tensors -/

/-- `ImageBatch.__torch_function__` and `FlowFields.__torch_function__`, ANY operation of the vocabulary, any
    arguments: every result that is typed has exactly one grid per entry and grid shapes equal to the spatial shape —
    a result whose batch size or spatial shape does not match is a plain tensor (or the call raises). (For FlowFields
    this holds since commit e158d15.) -/
theorem C19_demote (op : TOp) (cur : SVal) (other : Option SVal) :
    CountShapeOKV (batchTorchFunction op cur other) :=
  countShapeOKV_batchTF op cur other

/-- same for `Image.__torch_function__` and `FlowField.__torch_function__` -/
theorem C19_demote_image (op : TOp) (cur : SVal) (other : Option SVal) :
    CountShapeOKV (imageTorchFunction op cur other) :=
  countShapeOKV_imageTF op cur other

/-- the demotion itself: batch size or spatial shape differs from the inherited grids ⇒ plain tensor. -/
theorem C19_demote_plain (data : Raw) (g0 : GridTag) (gs : List GridTag) (ax : Option Nat) :
    ((data.shape.headD 0 ≠ (g0 :: gs).length ∨ data.shape.drop 2 ≠ g0.shape) →
        ibResult data (some (g0 :: gs)) = .one (.plain data)) ∧
      ((data.shape.headD 0 ≠ (g0 :: gs).length ∨ data.shape.drop 2 ≠ g0.shape) →
        ffResult data (some (g0 :: gs)) ax = .one (.plain data)) ∧
      (data.shape.drop 1 ≠ g0.shape → imResult data (some g0) = .one (.plain data)) := by
  have hib : (data.shape.headD 0 ≠ (g0 :: gs).length ∨ data.shape.drop 2 ≠ g0.shape) →
      ibResult data (some (g0 :: gs)) = .one (.plain data) := by
    intro h
    unfold ibResult
    simp only []
    rw [if_neg]
    intro hc
    rcases h with h | h
    · exact h hc.2.1
    · exact h hc.2.2
  refine ⟨hib, ?_, ?_⟩
  · intro h
    unfold ffResult
    cases ax with
    | none => exact hib h
    | some a =>
      simp only []
      rw [if_neg]
      · exact hib h
      · intro hc
        rcases h with h | h
        · exact h hc.2.1
        · exact h hc.2.2.2
  · intro h
    unfold imResult
    simp only []
    rw [if_neg (fun hc => h hc.2)]

/-- example for the hypotheses of `C19_demote_plain`: `torch.narrow(batch, 0, 1, 2)` on 3 items is demoted -/
example : step none (.narrowF 0 1 2) (.one (mkInput false 3 2 [4, 5] 0 0)) =
    .one (.plain ⟨[2, 2, 4, 5], [.item 1, .item 2]⟩) := by decide

/-- the former witnesses of the missing batch-size test in `FlowFields._torch_function_result` (repaired by e158d15):
    index_select(0,[2,0]), mean(0,keepdim), torch.narrow(x,0,1,2), repeat(2,1,1,1), expand(3,-1,-1,-1), cat(dim=-4)
    on flow-field batches now return plain tensors. -/
theorem C19_flow_batch_size_demoted :
    step none (.indexSelect 0 [2, 0]) (.one (mkInput true 3 2 [2, 2] 0 1)) =
        .one (.plain ⟨[2, 2, 2, 2], [.item 2, .item 0]⟩) ∧
      step none (.reduce false [0] true) (.one (mkInput true 3 2 [2, 2] 0 1)) = .one (.plain ⟨[1, 2, 2, 2], [.mixed]⟩) ∧
      step none (.narrowF 0 1 2) (.one (mkInput true 3 2 [2, 2] 0 1)) =
        .one (.plain ⟨[2, 2, 2, 2], [.item 1, .item 2]⟩) ∧
      step none (.repeat_ [2, 1, 1, 1]) (.one (mkInput true 2 2 [2, 2] 0 1)) =
        .one (.plain ⟨[4, 2, 2, 2], [.item 0, .item 1, .item 0, .item 1]⟩) ∧
      step none (.expand [3, -1, -1, -1]) (.one (mkInput true 1 2 [2, 2] 0 1)) =
        .one (.plain ⟨[3, 2, 2, 2], [.item 0, .item 0, .item 0]⟩) ∧
      step none (.cat [.cur, .cur] (.kw (-4))) (.one (mkInput true 2 2 [2, 2] 0 1)) =
        .one (.plain ⟨[4, 2, 2, 2], [.item 0, .item 1, .item 0, .item 1]⟩) := by
  decide

/-! ### copy / deepcopy / pickle -/

/-- copying, deep-copying and pickling return the same type, data, grids and axes for every well-formed value
    (Image, ImageBatch, FlowField, FlowFields; `copy.copy` of flow fields since commit 5463a8b). -/
theorem C19_copy_pickle (other : Option SVal) (s : SVal) (h : WFS s) :
    step other .pickle (.one s) = .one s ∧ step other .deepcopy (.one s) = .one s ∧
      step other .copy (.one s) = .one s :=
  copy_pickle_preserve other s h

example : WFS (mkInput true 3 2 [4, 5] 0 1) ∧ WFS (mkInputImage false 2 [4, 5] 1 0) ∧
    WFS (mkInputImage true 2 [4, 5] 1 3) := by decide

/-! ### vector representation through from_images / append (repaired by d25ad21) -/

/-- a FlowFields returned by `from_images` carries the axes of every flow field it was built from (items with
    different axes make the call raise) -/
theorem C19_from_images_axes (l : List SVal) (t : Raw) (gs : List GridTag) (a : Nat)
    (h : stepMany .fromImages l = .one (.batch true t gs a)) : ∀ s ∈ l, ∀ a', axes? s = some a' → a' = a :=
  fromImages_axes l t gs a h

/-- `FlowFields.append` of flow fields with different axes raises instead of re-labelling the vectors -/
theorem C19_append_axes_mismatch_raises (a ao : Nat) (t t' : Raw) (gs gs' : List GridTag) (h : ao ≠ a) :
    step (some (.batch true t' gs' ao)) .append (.one (.batch true t gs a)) = .err .dispatch := by
  simp only [step, stepOne]
  exact append_mismatch_raises a ao t t' gs gs' h

/-! ### refuted operation classes (each with the smallest witness; replayed on the implementation by the
    harness stream `witnesses`) -/

/-- F-19a `torch.flip` along dim 0 keeps the grids in the original order -/
theorem C19_flip_refuted : ¬ (∀ v : Val, AlignedV 0 v → AlignedV 0 (step none (.flip [0]) v)) := by
  intro h
  have := h (.one (mkInput false 2 1 [2, 2] 0 0)) (by decide)
  revert this; decide

/-- F-19a `torch.roll` along dim 0 -/
theorem C19_roll_refuted : ¬ (∀ v : Val, AlignedV 0 v → AlignedV 0 (step none (.roll 1 0) v)) := by
  intro h
  have := h (.one (mkInput false 2 1 [2, 2] 0 0)) (by decide)
  revert this; decide

/-- F-19a `index_select(0, permutation)` -/
theorem C19_index_select_refuted : ¬ (∀ v : Val, AlignedV 0 v → AlignedV 0 (step none (.indexSelect 0 [1, 0]) v)) := by
  intro h
  have := h (.one (mkInput false 2 1 [2, 2] 0 0)) (by decide)
  revert this; decide

/-- exchanging batch and channel dimension when N = C: entries mix all items but stay typed -/
theorem C19_permute_refuted : ¬ (∀ v : Val, AlignedV 0 v → AlignedV 0 (step none (.transpose 0 1) v)) := by
  intro h
  have := h (.one (mkInput false 2 2 [2, 2] 0 0)) (by decide)
  revert this; decide

/-- the former witnesses of the defects repaired in /repo (31c6369 narrow / `batch[...]`, a040c96 split sections,
    e37fd36 boolean mask, 018b42a negative dim, d25ad21 from_images axes, 5463a8b copy) are aligned now — concrete instances of `C19_aligned_partial` -/
theorem C19_repaired_witnesses_aligned :
    AlignedV 0 (step none (.splitL [1, 2] .dflt) (.one (mkInput false 3 1 [2, 2] 0 0))) ∧
      AlignedV 0 (step none (.splitWS [1, 2] .dflt) (.one (mkInput false 3 1 [2, 2] 0 0))) ∧
      AlignedV 0 (step none (.getitem (.single (.mask [true, false, true]))) (.one (mkInput false 3 1 [2, 2] 0 0))) ∧
      AlignedV 0 (step none (.getitem (.single .ell)) (.one (mkInput false 2 1 [2, 2] 0 0))) ∧
      AlignedV 0 (step none (.narrowM 0 1 1) (.one (mkInput false 2 1 [2, 2] 0 0))) ∧
      AlignedV 0 (step none (.narrowM (-4) 1 1) (.one (mkInput false 2 1 [2, 2] 0 0))) ∧
      AlignedV 1 (runProg none [.iter, .fromImages] (.one (mkInput true 2 2 [2, 2] 0 1))) ∧
      AlignedV 1 (step none .copy (.one (mkInput true 2 2 [2, 2] 0 1))) ∧
      step none (.narrowM 0 1 1) (.one (mkInput false 2 1 [2, 2] 0 0)) =
        .one (.batch false ⟨[1, 1, 2, 2], [.item 1]⟩ [⟨1, [2, 2], []⟩] 0) ∧
      step none (.splitL [1, 2] .dflt) (.one (mkInput false 3 1 [2, 2] 0 0)) =
        .many [.batch false ⟨[1, 1, 2, 2], [.item 0]⟩ [⟨0, [2, 2], []⟩] 0,
               .batch false ⟨[2, 1, 2, 2], [.item 1, .item 2]⟩ [⟨1, [2, 2], []⟩, ⟨2, [2, 2], []⟩] 0] := by
  decide

end Deepali
