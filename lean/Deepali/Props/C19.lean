/-
  Props/C19.lean — property C19: batches keep one correctly aligned grid per image under tensor operations.
  Model: Deepali/Model/Dispatch.lean (`torchSem` = trusted torch semantics, the rest = the dispatcher as written).
  `AlignedS/AlignedV`, `goodOp`, `OtherOK`, `CountShapeOK`, `WFS` are defined in Deepali/Proofs/Dispatch*.lean.

  History: every defect behind the former `_refuted` theorems (C19_split_sections, C19_split_with_sizes, C19_bool_mask,
  C19_ellipsis, C19_narrow_method, C19_flow_*, C19_demote_flow, C19_narrow_negdim, C19_copy_flow, C19_from_images_axes,
  C19_append_axes, C19_flip, C19_roll, C19_index_select, C19_permute, C19_aligned_refuted) has been repaired in /repo
  (commits 31c6369, a040c96, e158d15, e37fd36, 018b42a, 5463a8b, d25ad21 and 05e9301 / c94e057); the model follows the repaired
  code, the operation classes are part of `goodOp` / `C19_demote` / `C19_copy_pickle`, and the old witnesses are kept as
  positive instances (`C19_repaired_witnesses_aligned`, `C19_flow_batch_size_demoted`). No refutation is left.

  OBLIGATIONS: C19_aligned_partial C19_demote C19_demote_image C19_demote_plain
    C19_flow_batch_size_demoted C19_repaired_witnesses_aligned C19_copy_pickle
    C19_from_images_axes C19_append_axes_mismatch_raises
    C19_flip_aligned C19_roll_aligned C19_index_select_aligned C19_permute_demoted
-/
import Deepali.Proofs.DispatchCopy

set_option linter.unusedSectionVars false

namespace Deepali
open Dispatch

/-- the generated vocabulary: every operation except the entry-wise combination of two DIFFERENT typed inputs
    (`cat`/`stack` with the second input along a dimension other than the batch dimension), for which the property does
    not say whose grid a mixed entry should carry (ASSUMPTIONS of harness/props/c19.py). -/
def genOp : TOp → Bool
  | .cat ops d => !ops.contains .other || dim0 d || (match d with | .kw v => decide (v < 0) | _ => false)
  | .stack ops d => !ops.contains .other || dim0 d
  | _ => true

/-- FULL STATEMENT (kept visible; neither proved nor refuted any more): every program over the generated vocabulary keeps
    every typed result aligned — one grid per entry, grid shape = spatial shape, entry `i` carries the grid and the axes
    of the input item whose data it holds. `a0` = the axes used by the flow inputs.
    Known obstacle to a proof at this strength with `AlignedS` as defined: an Image whose channels hold no data at all
    (empty channel dimension, or only zero-padding selected) has provenance `none`; `from_images` / `collate` /
    `Image.batch()` turn it into a batch entry whose provenance is `none` instead of `item (grid.src)` — harmless on the
    implementation (nothing to compare), but the strict equation `prov = grids.map item` of `AlignedS` fails. -/
def C19_aligned_Statement : Prop :=
  ∀ (a0 : Nat) (other : Option SVal) (prog : List TOp) (v : Val),
    OtherOK a0 other → (∀ op ∈ prog, genOp op = true) → AlignedV a0 v → AlignedV a0 (runProg other prog v)

/-- Proved part: programs of ANY length built from the operation classes of `goodOp` —
    elementwise / casts / clone / detach / in-place elementwise; copy / deepcopy / pickle; every single index form
    `b[int]`, `b[slice]`, `b[list | index tensor]`, `b[bool mask]`, `b[...]`, and index tuples without ellipsis;
    iteration and picking a tuple member; `cat` along dim 0 (dim omitted, positional 0, keyword 0) with itself or another
    aligned batch; `append`; `split(int)`, `split([sections])`, `split_with_sizes`, `tensor_split(indices)` along dim 0;
    `chunk`, `unbind`; method `narrow` (any dim, start >= 0); with ANY dim literals (positive, negative, several):
    `flip`, `roll` (also of the flattened tensor), `index_select`, `permute`, `transpose`; along non-batch dims given as
    positive literals: `narrow` (function), `select`, reductions; `interpolate`; pooling —
    keep every result aligned, for Image, ImageBatch, FlowField and FlowFields alike, starting from any aligned value
    (an exception yields nothing, I-1; plain results claim nothing).
    STILL EXCLUDED from `goodOp` (no counterexample known; `C19_demote` proves one grid per entry + matching shapes for all
    of them, provenance is covered by correspondence + oracle only), and why:
    * `torch.narrow` / `select` / reductions / `cat` / `split*` / `tensor_split(indices)` with a NEGATIVE or batch-dim literal
      where not listed above, `tensor_split(int)`, `stack`, `expand`, `repeat`, `reshape`, `squeeze`, `unsqueeze`, padding, full
      reductions: the result is typed only if ndim, batch size and spatial shape survive; proving that the dim-0 provenance
      is then unchanged needs `ndim >= 4` and `prov.length = shape[0]` as part of the invariant (not in `AlignedS`);
    * index tuples containing an ellipsis: the normalisation of `__getitem__` (@329-341) is not yet proved to produce an
      ellipsis-free index;
    * `from_images`, `collate`, `Image.batch()`: see the obstacle described at `C19_aligned_Statement` (axes clause:
      `C19_from_images_axes`). -/
theorem C19_aligned_partial (a0 : Nat) (other : Option SVal) (prog : List TOp) (v : Val)
    (hother : OtherOK a0 other) (hgood : ∀ op ∈ prog, goodOp op = true) (hv : AlignedV a0 v) :
    AlignedV a0 (runProg other prog v) :=
  alignedV_runProg a0 other prog v hother hgood hv

/-- non-vacuity: a 3-item batch with distinct grids is aligned, so is a second batch, and a 6-step program of good
    operations (cat with the other batch, slice, list index, split, pick, int index) runs to a typed, aligned Image. -/
example : AlignedV 1 (.one (mkInput true 3 2 [4, 5] 0 1)) ∧ OtherOK 1 (some (mkInput true 2 2 [4, 5] 10 1)) := by
  refine ⟨by decide, ?_⟩
  intro o ho
  cases ho
  exact ⟨⟨_, _, _, _, rfl⟩, by decide⟩

example :
    let prog : List TOp := [.cat [.cur, .other] .dflt, .getitem (.single (.slice (some 1) none none)),
      .getitem (.single (.list [3, 0, 1])), .ew, .flip [3, -4], .roll [1, 2] (some [0, -1]), .indexSelect (-4) [1, 2, 0],
      .pool 2 1 1, .narrowM 0 0 3,
      .getitem (.single (.mask [true, true, false])), .splitL [1, 1] .dflt, .pick 0, .getitem (.single (.int 0))]
    (∀ op ∈ prog, goodOp op = true) ∧
      runProg (some (mkInput false 2 2 [4, 5] 10 0)) prog (.one (mkInput false 3 2 [4, 5] 0 0)) =
        .one (.image false ⟨[2, 4, 5], [.item 2, .item 2]⟩ ⟨2, [4, 5], []⟩ 0) := by
  decide

/-! ### demotion: mismatching results are plain tensors -/

/-- `ImageBatch.__torch_function__` and `FlowFields.__torch_function__`, ANY operation of the vocabulary, any
    arguments: every result that is typed has exactly one grid per entry and grid shapes equal to the spatial shape —
    a result whose batch size or spatial shape does not match is a plain tensor (or the call raises). (For FlowFields
    this holds since commit e158d15.) -/
theorem C19_demote (op : TOp) (cur : SVal) (other : Option SVal) :
    CountShapeOKV (batchTorchFunction op cur other) :=
  countShapeOKV_batchTF op cur other

/-- same for `Image.__torch_function__` and `FlowField.__torch_function__` -/
theorem C19_demote_image (op : TOp) (cur : SVal) (other : Option SVal) :
    CountShapeOKV (imageTorchFunction op cur other) :=
  countShapeOKV_imageTF op cur other

/-- the demotion itself: batch size or spatial shape differs from the inherited grids ⇒ plain tensor. -/
theorem C19_demote_plain (data : Raw) (g0 : GridTag) (gs : List GridTag) (ax : Option Nat) :
    ((data.shape.headD 0 ≠ (g0 :: gs).length ∨ data.shape.drop 2 ≠ g0.shape) →
        ibResult data (some (g0 :: gs)) = .one (.plain data)) ∧
      ((data.shape.headD 0 ≠ (g0 :: gs).length ∨ data.shape.drop 2 ≠ g0.shape) →
        ffResult data (some (g0 :: gs)) ax = .one (.plain data)) ∧
      (data.shape.drop 1 ≠ g0.shape → imResult data (some g0) = .one (.plain data)) := by
  have hib : (data.shape.headD 0 ≠ (g0 :: gs).length ∨ data.shape.drop 2 ≠ g0.shape) →
      ibResult data (some (g0 :: gs)) = .one (.plain data) := by
    intro h
    unfold ibResult
    simp only []
    rw [if_neg]
    intro hc
    rcases h with h | h
    · exact h hc.2.1
    · exact h hc.2.2
  refine ⟨hib, ?_, ?_⟩
  · intro h
    unfold ffResult
    cases ax with
    | none => exact hib h
    | some a =>
      simp only []
      rw [if_neg]
      · exact hib h
      · intro hc
        rcases h with h | h
        · exact h hc.2.1
        · exact h hc.2.2.2
  · intro h
    unfold imResult
    simp only []
    rw [if_neg (fun hc => h hc.2)]

/-- example for the hypotheses of `C19_demote_plain`: `torch.narrow(batch, 0, 1, 2)` on 3 items is demoted -/
example : step none (.narrowF 0 1 2) (.one (mkInput false 3 2 [4, 5] 0 0)) =
    .one (.plain ⟨[2, 2, 4, 5], [.item 1, .item 2]⟩) := by decide

/-- the former witnesses of the missing batch-size test in `FlowFields._torch_function_result` (repaired by e158d15):
    index_select(0,[2,0]), mean(0,keepdim), torch.narrow(x,0,1,2), repeat(2,1,1,1), expand(3,-1,-1,-1), cat(dim=-4)
    on flow-field batches now return plain tensors (index_select: since 05e9301 / c94e057 a FlowFields with the two selected
    grids). -/
theorem C19_flow_batch_size_demoted :
    step none (.indexSelect 0 [2, 0]) (.one (mkInput true 3 2 [2, 2] 0 1)) =
        .one (.batch true ⟨[2, 2, 2, 2], [.item 2, .item 0]⟩ [⟨2, [2, 2], []⟩, ⟨0, [2, 2], []⟩] 1) ∧
      step none (.reduce false [0] true) (.one (mkInput true 3 2 [2, 2] 0 1)) = .one (.plain ⟨[1, 2, 2, 2], [.mixed]⟩) ∧
      step none (.narrowF 0 1 2) (.one (mkInput true 3 2 [2, 2] 0 1)) =
        .one (.plain ⟨[2, 2, 2, 2], [.item 1, .item 2]⟩) ∧
      step none (.repeat_ [2, 1, 1, 1]) (.one (mkInput true 2 2 [2, 2] 0 1)) =
        .one (.plain ⟨[4, 2, 2, 2], [.item 0, .item 1, .item 0, .item 1]⟩) ∧
      step none (.expand [3, -1, -1, -1]) (.one (mkInput true 1 2 [2, 2] 0 1)) =
        .one (.plain ⟨[3, 2, 2, 2], [.item 0, .item 0, .item 0]⟩) ∧
      step none (.cat [.cur, .cur] (.kw (-4))) (.one (mkInput true 2 2 [2, 2] 0 1)) =
        .one (.plain ⟨[4, 2, 2, 2], [.item 0, .item 1, .item 0, .item 1]⟩) := by
  decide

/-! ### copy / deepcopy / pickle -/

/-- copying, deep-copying and pickling return the same type, data, grids and axes for every well-formed value
    (Image, ImageBatch, FlowField, FlowFields; `copy.copy` of flow fields since commit 5463a8b). -/
theorem C19_copy_pickle (other : Option SVal) (s : SVal) (h : WFS s) :
    step other .pickle (.one s) = .one s ∧ step other .deepcopy (.one s) = .one s ∧
      step other .copy (.one s) = .one s :=
  copy_pickle_preserve other s h

example : WFS (mkInput true 3 2 [4, 5] 0 1) ∧ WFS (mkInputImage false 2 [4, 5] 1 0) ∧
    WFS (mkInputImage true 2 [4, 5] 1 3) := by decide

/-! ### vector representation through from_images / append (repaired by d25ad21) -/

/-- a FlowFields returned by `from_images` carries the axes of every flow field it was built from (items with
    different axes make the call raise) -/
theorem C19_from_images_axes (l : List SVal) (t : Raw) (gs : List GridTag) (a : Nat)
    (h : stepMany .fromImages l = .one (.batch true t gs a)) : ∀ s ∈ l, ∀ a', axes? s = some a' → a' = a :=
  fromImages_axes l t gs a h

/-- `FlowFields.append` of flow fields with different axes raises instead of re-labelling the vectors -/
theorem C19_append_axes_mismatch_raises (a ao : Nat) (t t' : Raw) (gs gs' : List GridTag) (h : ao ≠ a) :
    step (some (.batch true t' gs' ao)) .append (.one (.batch true t gs a)) = .err .dispatch := by
  simp only [step, stepOne]
  exact append_mismatch_raises a ao t t' gs gs' h

/-! ### reordering / re-selecting batch entries and moving the batch dimension (repaired by 05e9301 / c94e057) -/

/-- `flip` along any dims: the grids are reversed exactly when the batch dimension is flipped -/
theorem C19_flip_aligned (a0 : Nat) (other : Option SVal) (dims : List Int) (v : Val) (ho : OtherOK a0 other)
    (hv : AlignedV a0 v) : AlignedV a0 (step other (.flip dims) v) :=
  alignedV_step a0 other _ v ho rfl hv

/-- `roll`: the grids are rolled with the entries for every (shift, dim) pair on the batch dimension; a roll of the
    flattened tensor is demoted -/
theorem C19_roll_aligned (a0 : Nat) (other : Option SVal) (shifts : List Int) (dims : Option (List Int)) (v : Val)
    (ho : OtherOK a0 other) (hv : AlignedV a0 v) : AlignedV a0 (step other (.roll shifts dims) v) :=
  alignedV_step a0 other _ v ho rfl hv

/-- `index_select` along any dim: along the batch dimension the grids are selected with the entries -/
theorem C19_index_select_aligned (a0 : Nat) (other : Option SVal) (dim : Int) (idx : List Int) (v : Val)
    (ho : OtherOK a0 other) (hv : AlignedV a0 v) : AlignedV a0 (step other (.indexSelect dim idx) v) :=
  alignedV_step a0 other _ v ho rfl hv

/-- `permute` / `transpose` of a batch (whichever dims): a plain tensor, never a mis-described batch -/
theorem C19_permute_demoted (f : Bool) (t : Raw) (gs : List GridTag) (a : Nat) (other : Option SVal)
    (perm : List Int) (d0 d1 : Int) :
    ((∃ d, step other (.permute perm) (.one (.batch f t gs a)) = .one (.plain d)) ∨
        step other (.permute perm) (.one (.batch f t gs a)) = .err .torch) ∧
      ((∃ d, step other (.transpose d0 d1) (.one (.batch f t gs a)) = .one (.plain d)) ∨
        step other (.transpose d0 d1) (.one (.batch f t gs a)) = .err .torch) := by
  simp only [step, stepOne]
  exact ⟨batchTF_nogrid_plain _ f t gs a other rfl rfl rfl rfl (torchSem_permute_not_ts perm t _),
    batchTF_nogrid_plain _ f t gs a other rfl rfl rfl rfl (torchSem_transpose_not_ts d0 d1 t _)⟩

/-- the former witnesses of the defects repaired in /repo (31c6369 narrow / `batch[...]`, a040c96 split sections,
    e37fd36 boolean mask, 018b42a negative dim, d25ad21 from_images axes, 5463a8b copy, 05e9301 / c94e057 flip / roll / index_select / permute) are aligned or demoted now — concrete instances of `C19_aligned_partial` -/
theorem C19_repaired_witnesses_aligned :
    AlignedV 0 (step none (.splitL [1, 2] .dflt) (.one (mkInput false 3 1 [2, 2] 0 0))) ∧
      AlignedV 0 (step none (.splitWS [1, 2] .dflt) (.one (mkInput false 3 1 [2, 2] 0 0))) ∧
      AlignedV 0 (step none (.getitem (.single (.mask [true, false, true]))) (.one (mkInput false 3 1 [2, 2] 0 0))) ∧
      AlignedV 0 (step none (.getitem (.single .ell)) (.one (mkInput false 2 1 [2, 2] 0 0))) ∧
      AlignedV 0 (step none (.narrowM 0 1 1) (.one (mkInput false 2 1 [2, 2] 0 0))) ∧
      AlignedV 0 (step none (.narrowM (-4) 1 1) (.one (mkInput false 2 1 [2, 2] 0 0))) ∧
      AlignedV 1 (runProg none [.iter, .fromImages] (.one (mkInput true 2 2 [2, 2] 0 1))) ∧
      AlignedV 1 (step none .copy (.one (mkInput true 2 2 [2, 2] 0 1))) ∧
      step none (.flip [0]) (.one (mkInput false 2 1 [2, 2] 0 0)) =
        .one (.batch false ⟨[2, 1, 2, 2], [.item 1, .item 0]⟩ [⟨1, [2, 2], []⟩, ⟨0, [2, 2], []⟩] 0) ∧
      step none (.roll [1] (some [0])) (.one (mkInput false 3 1 [2, 2] 0 0)) =
        .one (.batch false ⟨[3, 1, 2, 2], [.item 2, .item 0, .item 1]⟩ [⟨2, [2, 2], []⟩, ⟨0, [2, 2], []⟩, ⟨1, [2, 2], []⟩] 0) ∧
      step none (.indexSelect 0 [1, 0]) (.one (mkInput true 2 2 [2, 2] 0 1)) =
        .one (.batch true ⟨[2, 2, 2, 2], [.item 1, .item 0]⟩ [⟨1, [2, 2], []⟩, ⟨0, [2, 2], []⟩] 1) ∧
      step none (.transpose 0 1) (.one (mkInput false 2 2 [2, 2] 0 0)) = .one (.plain ⟨[2, 2, 2, 2], [.mixed, .mixed]⟩) ∧
      step none (.transpose 2 3) (.one (mkInput false 2 1 [2, 2] 0 0)) = .one (.plain ⟨[2, 1, 2, 2], [.item 0, .item 1]⟩) ∧
      step none (.roll [3] none) (.one (mkInput false 2 2 [2, 2] 0 0)) = .one (.plain ⟨[2, 2, 2, 2], [.mixed, .mixed]⟩) ∧
      -- an empty batch keeps its (empty) grid list under flip / roll / index_select
      step none (.indexSelect 1 [0]) (.one (.batch false ⟨[0, 1, 2, 2], []⟩ [] 0)) = .one (.batch false ⟨[0, 1, 2, 2], []⟩ [] 0) ∧
      step none (.flip [0]) (.one (.batch false ⟨[0, 1, 2, 2], []⟩ [] 0)) = .one (.batch false ⟨[0, 1, 2, 2], []⟩ [] 0) ∧
      step none (.roll [1] (some [0])) (.one (.batch false ⟨[0, 1, 2, 2], []⟩ [] 0)) = .one (.batch false ⟨[0, 1, 2, 2], []⟩ [] 0) ∧
      step none (.narrowM 0 1 1) (.one (mkInput false 2 1 [2, 2] 0 0)) =
        .one (.batch false ⟨[1, 1, 2, 2], [.item 1]⟩ [⟨1, [2, 2], []⟩] 0) ∧
      step none (.splitL [1, 2] .dflt) (.one (mkInput false 3 1 [2, 2] 0 0)) =
        .many [.batch false ⟨[1, 1, 2, 2], [.item 0]⟩ [⟨0, [2, 2], []⟩] 0,
               .batch false ⟨[2, 1, 2, 2], [.item 1, .item 2]⟩ [⟨1, [2, 2], []⟩, ⟨2, [2, 2], []⟩] 0] := by
  decide

end Deepali
