/-
  Props/C20.lean — property C20: gradients reaching parameters and inputs are the true derivatives.

  What is proved: for every operation of the model that is linear, polynomial or piecewise
  multilinear in the differentiated argument, the closed-form gradient of `Model/Grad.lean`
  (the formula the harness compares with `torch.autograd.grad` of the real deepali operation) IS the
  derivative of the model function (the transcription of the code the other properties use).
  Each operation has an exact expansion over an arbitrary (ordered / floor) field
      f(x + t·eᵢ) = f(x) + t·gᵢ(x) + t²·r
  with an explicit remainder (`…_expand`), and over ℝ the Mathlib statement `HasDerivAt` of the
  restriction along the coordinate (`…_hasDeriv`), obtained through
  `hasDerivAt_of_quadratic_remainder` (Proofs/GradCore.lean).  Kinks are excluded by hypothesis:
  `x i ≠ y i` (L1), `|x i − y i| ≠ δ` (Huber, smooth-L1), sample position not an integer
  (interpolation); `floor` is locally constant there.

  OBLIGATIONS: C20_ssd_expand C20_ssd_hasDeriv C20_l1_hasDeriv C20_huber_hasDeriv
    C20_smoothL1_hasDeriv C20_sample_value_expand C20_sample_value_hasDeriv
    C20_interp_cell_polynomial C20_interp_coord_hasDeriv C20_gridSample_coord_hasDeriv
    C20_bspline_eval_expand C20_bspline_eval_hasDeriv C20_fd_expand C20_spatialDerivative_expand
    C20_spatialDerivative_hasDeriv C20_quadReg_expand C20_quadReg_hasDeriv
    C20_dice_hasDeriv C20_tversky_hasDeriv C20_ncc_hasDeriv
    C20_compose_v_expand C20_rot2_hasDeriv C20_scaleTranslate_expand

  PARTIAL (DESIGN.md §5 C20, §7): multi-step `expv`, `logv`, `compose_svfs`, MI/NMI (Parzen window
  with exp/log), LCC/WLCC, full transform stacks and the 3-D rotation parameterisations have no
  closed-form model gradient; `compose_flows`/`expvStep` w.r.t. the *displacing* field, subdivision
  and the `transpose=True` B-spline branch have a model gradient that is validated by the
  correspondence stream but no theorem.  These are covered by the autograd-vs-central-difference
  exploration oracle (harness/props/c20_oracle.py) only.  Autograd itself (torch's derivative
  formulas) is trusted.
-/
import Deepali.Proofs.GradCore
import Deepali.Proofs.GradLosses
import Deepali.Proofs.GradSample
import Deepali.Proofs.GradLinear
import Deepali.Proofs.GradRational
import Mathlib.Algebra.Order.Archimedean.Real.Basic

set_option linter.unusedSectionVars false

namespace Deepali
open Deepali.Grad Deepali.Loss Deepali.FD Filter Topology

/-! ### (a) element-wise losses with mask, reduction and norm -/
section Pointwise
variable {K : Type} [Field K] [LinearOrder K] [IsStrictOrderedRing K]

/-- SSD / MSE (`ssd_loss` @963-971): exact second-order expansion in every source sample, for every
    reduction, mask and `norm`; the linear coefficient is the model gradient. -/
theorem C20_ssd_expand (red : Reduction) {n i : Nat} (hi : i < n) (x y : Nat → K) (m : Option (Nat → K))
    (norm : Option K) (cot : Nat → K) (t : K) :
    pwScalar sqDiff red n (bump i t x) y m norm cot
      = pwScalar sqDiff red n x y m norm cot + t * gradPointwise .ssd red n x y m norm cot i
        + t ^ 2 * pwFactor red n m norm cot i := by
  rw [pwScalar_expand sqDiff red hi x y m norm cot t _ _ (sqDiff_expand (x i) (y i) t), gradPointwise_eq]
  simp only [dfn]; ring

end Pointwise

theorem eventually_abs_lt {ε : ℝ} (hε : 0 < ε) : ∀ᶠ t in 𝓝 (0 : ℝ), |t| < ε := by
  filter_upwards [Ioo_mem_nhds (neg_lt_zero.mpr hε) hε] with t ht
  exact abs_lt.mpr ht

/-- generic bridge: a local expansion of the point-wise function at `(x i, y i)` gives `HasDerivAt` of the
    scalarised loss with the model gradient. -/
theorem pw_hasDeriv (kind : Pointwise ℝ) (red : Reduction) {n i : Nat} (hi : i < n) (x y : Nat → ℝ)
    (m : Option (Nat → ℝ)) (norm : Option ℝ) (cot : Nat → ℝ) (r : ℝ)
    (hf : ∀ᶠ t in 𝓝 (0 : ℝ), kind.fn (x i + t) (y i) = kind.fn (x i) (y i) + t * dfn kind (x i) (y i) + t ^ 2 * r) :
    HasDerivAt (fun t => pwScalar kind.fn red n (bump i t x) y m norm cot)
      (gradPointwise kind red n x y m norm cot i) 0 := by
  apply hasDerivAt_of_quadratic_remainder (r := fun _ => r * pwFactor red n m norm cot i) _ continuousAt_const
  filter_upwards [hf] with t ht
  simp only [zero_add, bump_zero]
  rw [pwScalar_expand kind.fn red hi x y m norm cot t _ _ ht, gradPointwise_eq]

/-- SSD / MSE over ℝ: the model gradient is the derivative. -/
theorem C20_ssd_hasDeriv (red : Reduction) {n i : Nat} (hi : i < n) (x y : Nat → ℝ) (m : Option (Nat → ℝ))
    (norm : Option ℝ) (cot : Nat → ℝ) :
    HasDerivAt (fun t => pwScalar sqDiff red n (bump i t x) y m norm cot)
      (gradPointwise .ssd red n x y m norm cot i) 0 :=
  pw_hasDeriv .ssd red hi x y m norm cot 1 (Eventually.of_forall (fun t => sqDiff_expand (x i) (y i) t))

/-- L1 / MAE away from the kink `x i = y i`. -/
theorem C20_l1_hasDeriv (red : Reduction) {n i : Nat} (hi : i < n) (x y : Nat → ℝ) (m : Option (Nat → ℝ))
    (norm : Option ℝ) (cot : Nat → ℝ) (hne : x i ≠ y i) :
    HasDerivAt (fun t => pwScalar l1Fn red n (bump i t x) y m norm cot)
      (gradPointwise .l1 red n x y m norm cot i) 0 := by
  refine pw_hasDeriv .l1 red hi x y m norm cot 0 ?_
  have hpos : 0 < |x i - y i| := abs_pos.mpr (sub_ne_zero.mpr hne)
  filter_upwards [eventually_abs_lt hpos] with t ht
  exact l1_expand ht

/-- Huber away from the kinks `|x i − y i| = δ` (`δ > 0`). -/
theorem C20_huber_hasDeriv (delta : ℝ) (hd : 0 < delta) (red : Reduction) {n i : Nat} (hi : i < n) (x y : Nat → ℝ)
    (m : Option (Nat → ℝ)) (norm : Option ℝ) (cot : Nat → ℝ) (hk : |x i - y i| ≠ delta) :
    HasDerivAt (fun t => pwScalar (huberFn delta) red n (bump i t x) y m norm cot)
      (gradPointwise (.huber delta) red n x y m norm cot i) 0 := by
  rcases lt_or_gt_of_ne hk with hlt | hgt
  · refine pw_hasDeriv (.huber delta) red hi x y m norm cot (1 / 2) ?_
    filter_upwards [eventually_abs_lt (sub_pos.mpr hlt)] with t ht
    refine huber_expand_inside hlt ?_
    calc |x i - y i + t| ≤ |x i - y i| + |t| := abs_add_le _ _
      _ < delta := by linarith
  · refine pw_hasDeriv (.huber delta) red hi x y m norm cot 0 ?_
    filter_upwards [eventually_abs_lt (sub_pos.mpr hgt)] with t ht
    refine huber_expand_outside (not_lt.mpr hgt.le) ?_ (by linarith)
    have : |x i - y i| - |t| ≤ |x i - y i + t| := by
      have := abs_sub_abs_le_abs_sub (x i - y i) (-t)
      simpa [abs_neg, sub_neg_eq_add] using this
    exact not_lt.mpr (by linarith)

/-- smooth-L1 away from the kinks `|x i − y i| = β` (`β > 0`). -/
theorem C20_smoothL1_hasDeriv (beta : ℝ) (hb : 0 < beta) (red : Reduction) {n i : Nat} (hi : i < n) (x y : Nat → ℝ)
    (m : Option (Nat → ℝ)) (norm : Option ℝ) (cot : Nat → ℝ) (hk : |x i - y i| ≠ beta) :
    HasDerivAt (fun t => pwScalar (smoothL1Fn beta) red n (bump i t x) y m norm cot)
      (gradPointwise (.smoothL1 beta) red n x y m norm cot i) 0 := by
  rcases lt_or_gt_of_ne hk with hlt | hgt
  · refine pw_hasDeriv (.smoothL1 beta) red hi x y m norm cot (1 / (2 * beta)) ?_
    filter_upwards [eventually_abs_lt (sub_pos.mpr hlt)] with t ht
    refine smoothL1_expand_inside hb.ne' hlt ?_
    calc |x i - y i + t| ≤ |x i - y i| + |t| := abs_add_le _ _
      _ < beta := by linarith
  · refine pw_hasDeriv (.smoothL1 beta) red hi x y m norm cot 0 ?_
    filter_upwards [eventually_abs_lt (sub_pos.mpr hgt)] with t ht
    refine smoothL1_expand_outside (not_lt.mpr hgt.le) ?_ (by linarith)
    have : |x i - y i| - |t| ≤ |x i - y i + t| := by
      have := abs_sub_abs_le_abs_sub (x i - y i) (-t)
      simpa [abs_neg, sub_neg_eq_add] using this
    exact not_lt.mpr (by linarith)

/-- non-vacuity: a Huber instance on both sides of the kink. -/
example : |(3 : ℝ) - 1| ≠ 1 ∧ |(1.5 : ℝ) - 1| ≠ 1 := by norm_num [abs_of_pos]

/-! ### (d) multilinear sampling -/
section Sampling
variable {K : Type} [Field K] [LinearOrder K] [IsStrictOrderedRing K] [FloorRing K] {d : Nat}

/-- `grid_sample` is linear in the image: the gradient w.r.t. an in-bounds sample value is the weight of
    that corner (both padding modes, both `align_corners`, any D), with no remainder. -/
theorem C20_sample_value_expand (ac : Bool) (pad : Padding) (size : Fin d → Nat) (img : (Fin d → Int) → K)
    (p : Fin d → K) (idx : Fin d → Int) (hin : ∀ i, 0 ≤ idx i ∧ idx i < (size i : Int)) (t : K) :
    gridSampleLin ac pad size (fun j => img j + t * deltaImg idx j) p
      = gridSampleLin ac pad size img p + t * gradSampleValue ac pad size p idx :=
  gridSampleLin_value_expand ac pad size img p idx hin t

/-- fixed-cell form of the coordinate statement: for every `x'` in the cell of `x` the interpolation
    is the multilinear polynomial `interpCell (cellOf x)`, and that polynomial is exactly affine
    along every axis with slope `dInterpCell` — the model's coordinate gradient. -/
theorem C20_interp_cell_polynomial (img : (Fin d → Int) → K) (x x' : Fin d → K) (h : cellOf x' = cellOf x)
    (i : Fin d) (t : K) :
    interpLin d img x' = interpCell d (cellOf x) img x' ∧
    interpCell d (cellOf x) img (bumpV i t x')
      = interpCell d (cellOf x) img x' + t * dInterpCell d (cellOf x) img x' i :=
  ⟨interpLin_same_cell d img x x' h, interpCell_bumpV d _ img x' i t⟩

end Sampling

theorem C20_sample_value_hasDeriv {d : Nat} (ac : Bool) (pad : Padding) (size : Fin d → Nat)
    (img : (Fin d → Int) → ℝ) (p : Fin d → ℝ) (idx : Fin d → Int) (hin : ∀ i, 0 ≤ idx i ∧ idx i < (size i : Int)) :
    HasDerivAt (fun t => gridSampleLin ac pad size (fun j => img j + t * deltaImg idx j) p)
      (gradSampleValue ac pad size p idx) 0 := by
  apply hasDerivAt_of_affine_near
  refine Eventually.of_forall (fun t => ?_)
  rw [gridSampleLin_value_expand ac pad size img p idx hin t, gridSampleLin_value_expand ac pad size img p idx hin 0]
  ring

/-- interpolation w.r.t. a coordinate at a non-kink point (that coordinate is not an integer sample
    position): the partial derivative is the difference of the two (d−1)-dimensional interpolations
    blended along the other axes (`dInterpLin`). -/
theorem C20_interp_coord_hasDeriv {d : Nat} (img : (Fin d → Int) → ℝ) (x : Fin d → ℝ) (i : Fin d)
    (hx : x i ≠ (⌊x i⌋ : ℝ)) :
    HasDerivAt (fun t => interpLin d img (bumpV i t x)) (dInterpLin d img x i) 0 := by
  apply hasDerivAt_of_affine_near
  filter_upwards [floor_add_eventually_eq hx] with t ht
  have h0 : bumpV i (0 : ℝ) x = x := by funext j; by_cases h : j = i <;> simp [bumpV, h]
  rw [h0]
  exact interpLin_coord_expand d img x i t (cellOf_bumpV_of_floor x i t ht)

/-- `grid_sample` (zero padding) w.r.t. a normalised coordinate, chain rule through `unnormalize`:
    at a point whose un-normalised coordinate `i` is not an integer the derivative is
    `dInterpLin · (n−1)/2` resp. `· n/2`. -/
theorem C20_gridSample_coord_hasDeriv {d : Nat} (ac : Bool) (size : Fin d → Nat) (img : (Fin d → Int) → ℝ)
    (p : Fin d → ℝ) (i : Fin d)
    (hx : unnormalize ac ((size i : Nat) : ℝ) (p i) ≠ (⌊unnormalize ac ((size i : Nat) : ℝ) (p i)⌋ : ℝ)) :
    HasDerivAt (fun t => gridSampleLin ac .zeros size img (bumpV i t p))
      (gradSampleCoord ac .zeros size img p i) 0 := by
  apply hasDerivAt_of_affine_near
  have hcont : Tendsto (fun t : ℝ => t * dUnnormalize ac ((size i : Nat) : ℝ)) (𝓝 0) (𝓝 0) :=
    (continuous_mul_right (dUnnormalize ac ((size i : Nat) : ℝ))).tendsto' 0 0 (by simp)
  filter_upwards [hcont.eventually (floor_add_eventually_eq hx)] with t ht
  have h0 : bumpV i (0 : ℝ) p = p := by funext j; by_cases h : j = i <;> simp [bumpV, h]
  rw [h0]
  exact gridSampleLin_coord_expand ac size img p i t ht

/-- non-vacuity: `align_corners=True`, n = 5, p = 0.3 ↦ sample position 2.6, not an integer. -/
example : unnormalize true ((5 : Nat) : ℝ) (0.3 : ℝ) ≠ (⌊unnormalize true ((5 : Nat) : ℝ) (0.3 : ℝ)⌋ : ℝ) := by
  have e : unnormalize true ((5 : Nat) : ℝ) (0.3 : ℝ) = 2.6 := by simp [unnormalize]; norm_num
  have f : ⌊(2.6 : ℝ)⌋ = 2 := by rw [Int.floor_eq_iff]; norm_num
  rw [e, f]; norm_num

/-! ### (e) cubic B-spline evaluation -/
section BSpline
variable {K : Type} [Field K]

/-- `evaluate_cubic_bspline` (weights branch) is linear in the coefficients: output sample `x` depends
    on coefficient `i` with weight `evalCoef W x i`, with no remainder. -/
theorem C20_bspline_eval_expand (W : List (W4 K)) (c : List K) {i : Nat} (hi : i < c.length) (t : K) (x : Nat) :
    evalAt W (bumpList i t c) x = evalAt W c x + t * evalCoef W x i :=
  evalAt_bumpList W c hi t x

end BSpline

theorem C20_bspline_eval_hasDeriv (W : List (W4 ℝ)) (c : List ℝ) {i : Nat} (hi : i < c.length) (x : Nat) :
    HasDerivAt (fun t => evalAt W (bumpList i t c) x) (evalCoef W x i) 0 := by
  apply hasDerivAt_of_affine_near
  refine Eventually.of_forall (fun t => ?_)
  rw [evalAt_bumpList W c hi t x, evalAt_bumpList W c hi 0 x]; ring

/-! ### (f) finite differences and quadratic regularisers -/
section FDiff
variable {K : Type} [Field K] {D : Nat}

/-- every finite-difference scheme (forward / backward / central / forward-central-backward, any
    dilation, replicate padding) is linear in the signal; the coefficient is the impulse response. -/
theorem C20_fd_expand (mode : FDMode) (n dil : Nat) (h : K) (f : Int → K) (t : K) (k j : Int) :
    finiteDifferences mode n dil h (fun m => f m + t * (if m = j then 1 else 0)) k
      = finiteDifferences mode n dil h f k + t * fdCoef mode n dil h k j :=
  finiteDifferences_impulse mode n dil h f t k j

/-- a spatial derivative of any order / key in any of the six finite-difference modes (incl. the Sobel /
    Prewitt averaging) scalarised with a cotangent: exact first-order expansion with `gradLinear`. -/
theorem C20_spatialDerivative_expand (mode : SDMode) (sz : Fin D → Nat) (sp : Fin D → K) (key : DKey D)
    (box : List (Idx D)) (cot A : Arr D K) (j : Idx D) (t : K) :
    sumIdx box (fun idx => cot idx * chain (sdStep mode sz sp) key (fun i => A i + t * unitArr j i) idx)
      = sumIdx box (fun idx => cot idx * chain (sdStep mode sz sp) key A idx)
        + t * gradLinear (chain (sdStep mode sz sp) key) box cot j :=
  gradLinear_expand (chain_linear _ (sdStep_linear mode sz sp) key) box cot A j t

/-- the terms of a regulariser: weights and derivative keys (bending: second-order keys, mixed ones
    doubled; diffusion / grad_loss(p=2,q=1): first-order keys). -/
def regTerms (mode : SDMode) (sz : Fin D → Nat) (sp : Fin D → K) (wk : List (K × DKey D)) :
    List (K × (Arr D K → Arr D K)) :=
  wk.map (fun p => (p.1, chain (sdStep mode sz sp) p.2))

/-- quadratic regulariser `Σ_l w_l Σ_idx (∂_{key_l} A)²`: exact expansion; linear coefficient =
    model gradient `gradQuadReg`, remainder = the regulariser of the unit impulse. -/
theorem C20_quadReg_expand (mode : SDMode) (sz : Fin D → Nat) (sp : Fin D → K) (wk : List (K × DKey D))
    (box : List (Idx D)) (A : Arr D K) (j : Idx D) (t : K) :
    quadReg (regTerms mode sz sp wk) box (fun i => A i + t * unitArr j i)
      = quadReg (regTerms mode sz sp wk) box A + t * gradQuadReg (regTerms mode sz sp wk) box A j
        + t ^ 2 * quadReg (regTerms mode sz sp wk) box (unitArr j) := by
  apply quadReg_expand
  intro p hp
  simp only [regTerms, List.mem_map] at hp
  obtain ⟨q, _, rfl⟩ := hp
  exact chain_linear _ (sdStep_linear mode sz sp) q.2

end FDiff

theorem C20_spatialDerivative_hasDeriv {D : Nat} (mode : SDMode) (sz : Fin D → Nat) (sp : Fin D → ℝ) (key : DKey D)
    (box : List (Idx D)) (cot A : Arr D ℝ) (j : Idx D) :
    HasDerivAt (fun t => sumIdx box (fun idx => cot idx * chain (sdStep mode sz sp) key (fun i => A i + t * unitArr j i) idx))
      (gradLinear (chain (sdStep mode sz sp) key) box cot j) 0 := by
  apply hasDerivAt_of_affine_near
  refine Eventually.of_forall (fun t => ?_)
  rw [C20_spatialDerivative_expand mode sz sp key box cot A j t, C20_spatialDerivative_expand mode sz sp key box cot A j 0]
  ring

theorem C20_quadReg_hasDeriv {D : Nat} (mode : SDMode) (sz : Fin D → Nat) (sp : Fin D → ℝ) (wk : List (ℝ × DKey D))
    (box : List (Idx D)) (A : Arr D ℝ) (j : Idx D) :
    HasDerivAt (fun t => quadReg (regTerms mode sz sp wk) box (fun i => A i + t * unitArr j i))
      (gradQuadReg (regTerms mode sz sp wk) box A j) 0 := by
  apply hasDerivAt_of_quadratic_remainder' (r := fun _ => quadReg (regTerms mode sz sp wk) box (unitArr j)) _ continuousAt_const
  intro t
  simp only [zero_add]
  have h0 := C20_quadReg_expand mode sz sp wk box A j 0
  have ht := C20_quadReg_expand mode sz sp wk box A j t
  rw [ht]
  have : quadReg (regTerms mode sz sp wk) box (fun i => A i + 0 * unitArr j i) = quadReg (regTerms mode sz sp wk) box A := by
    rw [h0]; ring
  rw [this]

/-! ### (b), (c) Dice, Tversky, NCC: rational in the differentiated argument -/

/-- Dice score of channel `k` w.r.t. prediction sample `s` of that channel (`dice_score` @183-185),
    whenever the denominator `Σp²w + Σy²w + ε` is non-zero (always for `ε > 0`, `w ≥ 0`). -/
theorem C20_dice_hasDeriv {S k s : Nat} (hs : s < S) (p y : Nat → ℝ) (w : Option (Nat → ℝ)) (eps : ℝ)
    (hden : dotCh S p p w k + dotCh S y y w k + eps ≠ 0) :
    HasDerivAt (fun t => diceAt S (bump (k * S + s) t p) y w eps k) (dDiceAt S p y w eps k s) 0 :=
  diceAt_hasDeriv hs p y w eps hden

/-- Tversky index (`tversky_index` @328-333), denominator non-zero. -/
theorem C20_tversky_hasDeriv {S k s : Nat} (hs : s < S) (p y : Nat → ℝ) (w : Option (Nat → ℝ)) (alpha beta eps : ℝ)
    (hden : dotCh S p y w k + eps + dotCh S p (fun i => 1 - y i) w k * alpha
              + dotCh S (fun i => 1 - p i) y w k * beta ≠ 0) :
    HasDerivAt (fun t => tverskyAt S (bump (k * S + s) t p) y w alpha beta eps k)
      (dTverskyAt S p y w alpha beta eps k s) 0 :=
  tverskyAt_hasDeriv hs p y w alpha beta eps hden

/-- NCC of one batch item (`ncc_loss` @561-574) w.r.t. source sample `i`, denominator `b·c + ε ≠ 0`
    (`b`, `c` the centred sums of squares). -/
theorem C20_ncc_hasDeriv {n i : Nat} (hi : i < n) (s tt : Nat → ℝ) (eps : ℝ)
    (hden : sumTo n (fun j => center n s j * center n s j) * sumTo n (fun j => center n tt j * center n tt j) + eps ≠ 0) :
    HasDerivAt (fun t => nccItem n (bump i t s) tt eps) (dNccItem n s tt eps i) 0 :=
  nccItem_hasDeriv hi s tt eps hden

/-- non-vacuity of the denominators: two samples, `ε = 1/1024`. -/
example : sumTo 2 (fun j => center 2 (fun i => (i : ℝ)) j * center 2 (fun i => (i : ℝ)) j)
    * sumTo 2 (fun j => center 2 (fun i => (i : ℝ)) j * center 2 (fun i => (i : ℝ)) j) + (1 / 1024 : ℝ) ≠ 0 := by
  simp [sumTo, center]; norm_num

/-! ### (g) compose_flows w.r.t. the sampled field, (h) linear maps of points w.r.t. parameters -/
section FlowLinear
variable {K : Type} [Field K] [LinearOrder K] [IsStrictOrderedRing K] [FloorRing K] {d : Nat}

/-- `compose_flows(u, v)` is linear in `v`: component `c` of the output at lattice point `idx` depends on
    `v j c'` with the border-padded sampling weight of `j` at `x + u(x)` (and only for `c = c'`). -/
theorem C20_compose_v_expand (ac : Bool) (n : Fin d → Nat) (u v : VField d K) (j : Fin d → Int) (c' : Fin d)
    (hin : ∀ i, 0 ≤ j i ∧ j i < (n i : Int)) (t : K) (idx : Fin d → Int) (c : Fin d) :
    composeFlows ac n u (fun k cc => v k cc + t * (if cc = c' then deltaImg j k else 0)) idx c
      = composeFlows ac n u v idx c
        + t * (if c = c' then gradSampleValue ac .border n ((latticePoint ac n idx).add (u idx)) j else 0) := by
  simp only [composeFlows, sampleVField, Vec.add]
  by_cases h : c = c'
  · subst h
    simp only [if_true]
    rw [gridSampleLin_value_expand ac .border n (fun k => v k c) _ j hin t]; ring
  · simp only [if_neg h, mul_zero, add_zero]

/-- scaling and translation of points are linear in the scale factors and offsets; `gradScale` /
    `gradTranslate` are these coefficients contracted with the cotangent (times the given `dσ/dp`). -/
theorem C20_scaleTranslate_expand (sigma tau x : Vec d K) (i j : Fin d) (t : K) :
    scaleTranslateApply (bumpV i t sigma) tau x j = scaleTranslateApply sigma tau x j + t * (if j = i then x j else 0)
    ∧ scaleTranslateApply sigma (bumpV i t tau) x j = scaleTranslateApply sigma tau x j + t * (if j = i then 1 else 0) := by
  constructor
  · by_cases h : j = i
    · subst h; simp only [scaleTranslateApply, bumpV, if_true]; ring
    · simp only [scaleTranslateApply, bumpV, if_neg h]; ring
  · by_cases h : j = i
    · subst h; simp only [scaleTranslateApply, bumpV, if_true]; ring
    · simp only [scaleTranslateApply, bumpV, if_neg h]; ring

end FlowLinear

/-- 2-D rotation of a point w.r.t. the (re-parameterised) angle parameter, *given* the elementary
    derivatives: if `cf`, `sf` are differentiable at `q` with `cf' = −sf·dθ`, `sf' = cf·dθ` (cos and
    sin of `θ(q)` with `θ'(q) = dθ`), the cotangent-contracted rotated point has derivative `gradRot2`. -/
theorem C20_rot2_hasDeriv (cf sf : ℝ → ℝ) (q dth : ℝ) (x cot : Vec 2 ℝ)
    (hc : HasDerivAt cf (-(sf q) * dth) q) (hs : HasDerivAt sf (cf q * dth) q) :
    HasDerivAt (fun r => cot 0 * rot2Apply (cf r) (sf r) x 0 + cot 1 * rot2Apply (cf r) (sf r) x 1)
      (gradRot2 (cf q) (sf q) dth x cot) q := by
  have h0 : HasDerivAt (fun r => cf r * x 0 - sf r * x 1) ((-(sf q) * dth) * x 0 - (cf q * dth) * x 1) q :=
    (hc.mul_const (x 0)).sub (hs.mul_const (x 1))
  have h1 : HasDerivAt (fun r => sf r * x 0 + cf r * x 1) ((cf q * dth) * x 0 + (-(sf q) * dth) * x 1) q :=
    (hs.mul_const (x 0)).add (hc.mul_const (x 1))
  have h := (h0.const_mul (cot 0)).add (h1.const_mul (cot 1))
  have e : (fun r => cot 0 * rot2Apply (cf r) (sf r) x 0 + cot 1 * rot2Apply (cf r) (sf r) x 1)
      = fun r => cot 0 * (cf r * x 0 - sf r * x 1) + cot 1 * (sf r * x 0 + cf r * x 1) := by
    funext r; simp [rot2Apply]
  rw [e]
  refine h.congr_deriv ?_
  simp only [gradRot2]; ring

end Deepali
