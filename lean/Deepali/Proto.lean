/-
  Proto.lean — line protocol shared by all driver handlers.
  One operation per line: `op tok tok …`; rationals as `p/q` or `p`, booleans `0/1`,
  vectors/matrices flattened (row-major) with the dimension given first.
-/
import Deepali.Model.Grid
namespace Deepali.Proto
open Deepali

abbrev Reader := StateT (List String) (Except String)

def tok : Reader String := do
  match (← get) with
  | [] => throw "bad-op:eof"
  | t :: ts => set ts; pure t

def done : Reader Unit := do
  match (← get) with
  | [] => pure ()
  | _ => throw "bad-op:trailing"

def parseRat (s : String) : Option Rat :=
  match s.splitOn "/" with
  | [p] => p.toInt?.map (fun (i : Int) => (i : Rat))
  | [p, q] =>
      match p.toInt?, q.toNat? with
      | some pi, some qn => if qn = 0 then none else some (mkRat pi qn)
      | _, _ => none
  | _ => none

def rat : Reader Rat := do
  let t ← tok
  match parseRat t with
  | some r => pure r
  | none => throw s!"bad-op:rat:{t}"

def nat : Reader Nat := do
  let t ← tok
  match t.toNat? with
  | some r => pure r
  | none => throw s!"bad-op:nat:{t}"

def int : Reader Int := do
  let t ← tok
  match t.toInt? with
  | some r => pure r
  | none => throw s!"bad-op:int:{t}"

def bool : Reader Bool := do
  let t ← tok
  match t with
  | "1" => pure true
  | "0" => pure false
  | _ => throw s!"bad-op:bool:{t}"

def listOf {α} (n : Nat) (r : Reader α) : Reader (List α) := do
  let mut out : Array α := #[]
  for _ in [0:n] do
    out := out.push (← r)
  pure out.toList

def vec (d : Nat) : Reader (Vec d Rat) := do
  let a := (← listOf d rat).toArray
  pure (fun i => a[i.val]!)

def mat (d : Nat) : Reader (Mat d Rat) := do
  let a := (← listOf (d * d) rat).toArray
  pure (fun i j => a[i.val * d + j.val]!)

def axes : Reader Axes := do
  let t ← tok
  match t with
  | "grid" => pure .grid
  | "cube" => pure .cube
  | "cube_corners" => pure .cubeCorners
  | "world" => pure .world
  | _ => throw s!"bad-op:axes:{t}"

/-- grid: size(d) center(d) spacing(d) direction(d*d) align_corners -/
def grid (d : Nat) : Reader (Grid d Rat) := do
  let size ← vec d
  let center ← vec d
  let spacing ← vec d
  let direction ← mat d
  let ac ← bool
  pure ⟨size, center, spacing, direction, ac⟩

/-- operand form: `trans t…` | `aff A…` | `hom A… t…` -/
def hform (d : Nat) : Reader (H d Rat) := do
  let t ← tok
  match t with
  | "trans" => pure (.trans (← vec d))
  | "aff" => pure (.aff (← mat d))
  | "hom" => do
      let A ← mat d
      let t ← vec d
      pure (.hom A t)
  | _ => throw s!"bad-op:hform:{t}"

def fmtRat (r : Rat) : String :=
  if r.den = 1 then toString r.num else s!"{r.num}/{r.den}"

def fmtVec {d} (x : Vec d Rat) : String :=
  " ".intercalate ((List.finRange d).map (fun i => fmtRat (x i)))

def fmtMat {d} (A : Mat d Rat) : String :=
  " ".intercalate ((List.finRange d).map (fun i => fmtVec (A i)))

def fmtH {d} : H d Rat → String
  | .trans t => s!"trans {fmtVec t}"
  | .aff A => s!"aff {fmtMat A}"
  | .hom A t => s!"hom {fmtMat A} {fmtVec t}"

def fmtGrid {d} (g : Grid d Rat) : String :=
  s!"{fmtVec g.size} {fmtVec g.center} {fmtVec g.spacing} {fmtMat g.direction} {if g.alignCorners then 1 else 0}"

/-- run a reader on the argument tokens; all tokens must be consumed. -/
def run (r : Reader String) (args : List String) : String :=
  match (do let s ← r; done; pure s).run args with
  | .ok (s, _) => s
  | .error e => e

abbrev Handler := List String → String

end Deepali.Proto
