/-
  Driver.lean — executable front end of the model: one operation per input line,
  one result per output line.  Run with `lake env lean --run Driver.lean`.
-/
import Deepali.Drv.All
open Deepali Deepali.Proto Deepali.Drv

def handleLine (line : String) : String :=
  match (line.trimAscii.toString.splitOn " ").filter (· ≠ "") with
  | [] => "bad-op:empty"
  | op :: args =>
      match allHandlers.lookup op with
      | some r => Proto.run r args
      | none => s!"bad-op:unknown:{op}"

partial def loop (hin : IO.FS.Stream) (hout : IO.FS.Stream) : IO Unit := do
  let line ← hin.getLine
  if line.isEmpty then return ()
  hout.putStrLn (handleLine line)
  loop hin hout

def main : IO Unit := do
  let hin ← IO.getStdin
  let hout ← IO.getStdout
  loop hin hout
  hout.flush
