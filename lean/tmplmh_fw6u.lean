import Deepali.Props.C15
open Deepali
#print axioms C15_monitor_sound
#print axioms C15_monitor_complete_for_writes
#print axioms C15_monitor_reject_witness
#print axioms C15_monitor_exact
#print axioms C15_frame
#print axioms C15_fresh_monitor_sound
#print axioms C15_grid_accessors_pure
#print axioms C15_grid_setters_refuted
#print axioms C15_cube_accessors_pure
#print axioms C15_image_accessors_pure
#print axioms C15_deepcopy_independent
#print axioms C15_deepcopy_fresh_grid
#print axioms C15_deepcopy_fresh_image
#print axioms C15_transform_accessors_partial
#print axioms C15_transform_accessors_refuted
#print axioms C15_transform_shared_parameters_refuted
#print axioms C15_transform_shared_child_refuted
